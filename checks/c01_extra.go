package checks

import (
	"fmt"

	"verif/harness"
)

// runSignExtra dispatches the heavier / semi-independent flavours (filled in by other files).
func runSignExtra(rc *harness.RunCtx, name string) harness.Outcome {
	if f, ok := extraSignFlavors[name]; ok {
		return f(rc)
	}
	return harness.Outcome{HarnessErr: fmt.Errorf("unknown signing flavour %q", name)}
}

var extraSignFlavors = map[string]func(rc *harness.RunCtx) harness.Outcome{}
