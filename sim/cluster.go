package sim

import (
	"context"
	"encoding/hex"
	"fmt"
	"math/rand/v2"
	"runtime/debug"
	"sort"
	"strings"
	"sync"
	"testing/synctest"
	"time"
)

// Task is one client goroutine of a party (a protocol script or a single
// router operation). It runs real library code.
type Task struct {
	Name   string
	Party  ID
	Ctx    context.Context
	Cancel context.CancelFunc

	mu       sync.Mutex
	done     bool
	out      any
	err      error
	panicked any
	stack    string
	DoneStep int
}

func (t *Task) Done() bool { t.mu.Lock(); defer t.mu.Unlock(); return t.done }
func (t *Task) Result() (any, error) {
	t.mu.Lock()
	defer t.mu.Unlock()
	return t.out, t.err
}
func (t *Task) Panic() (any, string) { t.mu.Lock(); defer t.mu.Unlock(); return t.panicked, t.stack }

// Event is something the scheduler may do at a quiescent state.
type Event struct {
	Key   string // canonical; recorded in the decision trace
	Kind  string // "deliver", "dup", "redeliver", "inject", "conflict", "cancel", "close", "terr", "custom:..."
	Fault bool   // not a plain delivery
	Apply func(c *Cluster) error
	Msg   *Msg
}

// Policy chooses among plain deliveries.
type Policy int

const (
	PolRandom    Policy = iota // uniform over deliverable messages
	PolFIFO                    // canonical order (first by (from,to,link))
	PolLIFO                    // newest first
	PolStarve                  // one party receives nothing until nothing else is deliverable
	PolPartition               // traffic across a cut is withheld until a heal step
	PolPriority                // PCT-like: random party priorities with a few change points
	numPolicies
)

func (p Policy) String() string {
	return [...]string{"random", "fifo", "lifo", "starve", "partition", "priority"}[p]
}

// FaultMix configures benign network faults (probabilities per step and budgets).
type FaultMix struct {
	DupRate      float64 // hand an identical copy of a pending message, keep the original
	RedeliverRate float64 // hand again a message that was already delivered (duplicate after consumption)
	InjectRate   float64 // foreign message (made by Cluster.MakeInject)
	ExtraRate    float64 // per-step probability of a workload fault event (cancel, close, conflict ...)
	Budget       int     // total fault events per run
}

// Stats counts what actually fired.
type Stats struct {
	Steps        int
	Delivered    int
	NonFIFO      int // deliveries that were not the canonical-first deliverable message
	Fired        map[string]int
	SimTime      time.Duration
	CapHit       bool
	Diverged     int // replay decisions that were not enabled
}

// Cluster is one simulated run: a Net, tasks and the scheduler.
type Cluster struct {
	Seed   Seed
	Net    *Net
	Tasks  []*Task
	Policy Policy
	Faults FaultMix
	// MaxSteps caps the run.
	MaxSteps int

	// Replay, when non-nil, is followed decision by decision; after it is
	// exhausted the canonical FIFO policy without faults continues.
	Replay []string
	Trace  []string

	// Extra lets a workload offer additional events (cancel, close, crash ...)
	// at each quiescent state. Fault events are chosen by the scheduler with
	// the fault stream; non-fault extra events compete with deliveries.
	Extra func(c *Cluster) []Event
	// MakeInject builds a foreign message for a party (nil = no injection).
	MakeInject func(c *Cluster, r *rand.Rand) *Msg
	// Invariant is evaluated at every quiescent state.
	Invariant func(c *Cluster) error
	// OnHand is called (root goroutine) right after a message was handed to a reader.
	OnHand func(c *Cluster, m *Msg, kind string)
	// CanDeliver, when set, filters deliverable messages (e.g. crashed parties).
	CanDeliver func(m *Msg) bool

	Stats Stats

	sched   *rand.Rand
	faults  *rand.Rand
	faultsUsed int
	starve  ID
	cut     map[ID]bool
	heal    int
	prio    map[ID]int
	prioChg []int
	start   time.Time
	wg      sync.WaitGroup
	Step    int
}

// NewCluster prepares a run. Call it inside the bubble.
func NewCluster(seed Seed, ids []ID) *Cluster {
	c := &Cluster{Seed: seed, Net: NewNet(ids), MaxSteps: 20000}
	c.sched = seed.Sub("sched").Rand()
	c.faults = seed.Sub("net").Rand()
	c.Stats.Fired = map[string]int{}
	c.start = time.Now()
	return c
}

// Go starts a task goroutine (inside the bubble).
func (c *Cluster) Go(name string, party ID, parent context.Context, fn func(ctx context.Context) (any, error)) *Task {
	if parent == nil {
		parent = context.Background()
	}
	ctx, cancel := context.WithCancel(parent)
	t := &Task{Name: name, Party: party, Ctx: ctx, Cancel: cancel}
	c.Tasks = append(c.Tasks, t)
	c.wg.Add(1)
	go func() {
		defer c.wg.Done()
		defer func() {
			if r := recover(); r != nil {
				t.mu.Lock()
				t.panicked = r
				t.stack = string(debug.Stack())
				t.done = true
				t.err = fmt.Errorf("panic: %v", r)
				t.mu.Unlock()
			}
		}()
		out, err := fn(ctx)
		t.mu.Lock()
		t.out, t.err, t.done = out, err, true
		t.DoneStep = c.Step
		t.mu.Unlock()
	}()
	return t
}

// AllDone reports whether every task returned.
func (c *Cluster) AllDone() bool {
	for _, t := range c.Tasks {
		if !t.Done() {
			return false
		}
	}
	return true
}

func (c *Cluster) setupPolicy() {
	ids := c.Net.Parties()
	r := c.Seed.Sub("policy").Rand()
	switch c.Policy {
	case PolStarve:
		c.starve = ids[r.IntN(len(ids))]
	case PolPartition:
		c.cut = map[ID]bool{}
		for _, id := range ids {
			c.cut[id] = r.IntN(2) == 0
		}
		c.heal = 5 + r.IntN(60)
	case PolPriority:
		c.prio = map[ID]int{}
		perm := r.Perm(len(ids))
		for i, id := range ids {
			c.prio[id] = perm[i]
		}
		for i := 0; i < 3; i++ {
			c.prioChg = append(c.prioChg, 1+r.IntN(200))
		}
		sort.Ints(c.prioChg)
	}
}

// deliverable lists messages whose recipient has a reader blocked in Receive.
func (c *Cluster) deliverable() []*Msg {
	var out []*Msg
	for _, m := range c.Net.Pending() {
		if !c.Net.ReaderWaiting(m.To) {
			continue
		}
		if c.CanDeliver != nil && !c.CanDeliver(m) {
			continue
		}
		out = append(out, m)
	}
	return out
}

func (c *Cluster) pickDelivery(ms []*Msg) *Msg {
	switch c.Policy {
	case PolFIFO:
		return ms[0]
	case PolLIFO:
		best := ms[0]
		for _, m := range ms {
			if m.SentStep > best.SentStep || (m.SentStep == best.SentStep && lessMsg(best, m)) {
				best = m
			}
		}
		return best
	case PolStarve:
		var rest []*Msg
		for _, m := range ms {
			if m.To != c.starve {
				rest = append(rest, m)
			}
		}
		if len(rest) > 0 {
			ms = rest
		}
	case PolPartition:
		if c.Step < c.heal {
			var rest []*Msg
			for _, m := range ms {
				if c.cut[m.From] == c.cut[m.To] {
					rest = append(rest, m)
				}
			}
			if len(rest) > 0 {
				ms = rest
			} else {
				c.heal = c.Step // nothing else can move: heal now
				c.Stats.Fired["partition_healed_early"]++
			}
		}
	case PolPriority:
		for len(c.prioChg) > 0 && c.Step >= c.prioChg[0] {
			c.prioChg = c.prioChg[1:]
			// demote the currently highest party
			ids := c.Net.Parties()
			hi := ids[0]
			for _, id := range ids {
				if c.prio[id] > c.prio[hi] {
					hi = id
				}
			}
			c.prio[hi] = -len(c.prioChg) - 1
		}
		best := -1 << 30
		for _, m := range ms {
			if c.prio[m.To] > best {
				best = c.prio[m.To]
			}
		}
		var top []*Msg
		for _, m := range ms {
			if c.prio[m.To] == best {
				top = append(top, m)
			}
		}
		ms = top
	}
	return ms[c.sched.IntN(len(ms))]
}

func (c *Cluster) deliverEvent(m *Msg) Event {
	return Event{Key: "deliver " + m.Key(), Kind: "deliver", Msg: m, Apply: func(c *Cluster) error {
		return c.Net.Hand(m, false)
	}}
}

// faultEvent draws one benign fault, or returns false.
func (c *Cluster) faultEvent(ms []*Msg) (Event, bool) {
	if c.faultsUsed >= c.Faults.Budget {
		return Event{}, false
	}
	x := c.faults.Float64()
	switch {
	case x < c.Faults.DupRate:
		if len(ms) == 0 {
			return Event{}, false
		}
		m := ms[c.faults.IntN(len(ms))]
		return Event{Key: "dup " + m.Key(), Kind: "dup", Fault: true, Msg: m, Apply: func(c *Cluster) error {
			return c.Net.Hand(m, true)
		}}, true
	case x < c.Faults.DupRate+c.Faults.RedeliverRate:
		var cand []*Msg
		for _, m := range c.Net.Delivered() {
			if c.Net.ReaderWaiting(m.To) && m.Kind != KindInject {
				cand = append(cand, m)
			}
		}
		if len(cand) == 0 {
			return Event{}, false
		}
		m := cand[c.faults.IntN(len(cand))]
		return Event{Key: "redeliver " + m.Key(), Kind: "redeliver", Fault: true, Msg: m, Apply: func(c *Cluster) error {
			return c.Net.Hand(m, true)
		}}, true
	case x < c.Faults.DupRate+c.Faults.RedeliverRate+c.Faults.InjectRate:
		if c.MakeInject == nil {
			return Event{}, false
		}
		m := c.MakeInject(c, c.faults)
		if m == nil || !c.Net.ReaderWaiting(m.To) {
			return Event{}, false
		}
		return c.injectEvent(m), true
	}
	return Event{}, false
}

func (c *Cluster) injectEvent(m *Msg) Event {
	return Event{Key: "inject " + m.Key() + " " + hex.EncodeToString(m.Bytes), Kind: "inject", Fault: true, Msg: m, Apply: func(c *Cluster) error {
		c.Net.Add(m)
		return c.Net.Hand(m, false)
	}}
}

// RunResult summarises how the scheduler loop ended.
type RunResult struct {
	Quiescent bool // no event enabled at the end
	Blocked   []*Task
	Err       error // harness trouble (never a property violation)
}

// Run is the macro-step scheduler loop: one event, then run to quiescence.
func (c *Cluster) Run() RunResult {
	c.setupPolicy()
	var res RunResult
	replayPos := 0
	for {
		synctest.Wait()
		c.Net.SetStep(c.Step)
		if c.Invariant != nil {
			if err := c.Invariant(c); err != nil {
				res.Err = nil
				c.Trace = append(c.Trace, "invariant-violation")
				res.Blocked = c.blocked()
				return RunResult{Err: &InvariantError{Step: c.Step, Err: err}}
			}
		}
		ms := c.deliverable()
		var extra []Event
		if c.Extra != nil {
			extra = c.Extra(c)
		}
		if len(ms) == 0 && len(extra) == 0 {
			res.Quiescent = true
			break
		}
		if c.Step >= c.MaxSteps {
			c.Stats.CapHit = true
			break
		}
		var ev Event
		chosen := false
		if c.Replay != nil {
			if replayPos < len(c.Replay) {
				want := c.Replay[replayPos]
				replayPos++
				ev, chosen = c.findEvent(want, ms, extra)
				if !chosen {
					c.Stats.Diverged++
				}
			}
			if !chosen {
				// canonical continuation: first deliverable message, else first non-fault extra
				if len(ms) > 0 {
					ev, chosen = c.deliverEvent(ms[0]), true
				} else {
					for _, e := range extra {
						if !e.Fault {
							ev, chosen = e, true
							break
						}
					}
				}
				if !chosen {
					res.Quiescent = true
					break
				}
			}
		} else {
			var fx, nfx []Event
			for _, e := range extra {
				if e.Fault {
					fx = append(fx, e)
				} else {
					nfx = append(nfx, e)
				}
			}
			if fe, ok := c.faultEvent(ms); ok {
				ev, chosen = fe, true
				c.faultsUsed++
			}
			if !chosen && len(fx) > 0 && c.faultsUsed < c.Faults.Budget && c.faults.Float64() < c.Faults.ExtraRate {
				ev, chosen = fx[c.faults.IntN(len(fx))], true
				c.faultsUsed++
			}
			if !chosen {
				total := len(nfx) + len(ms)
				if total == 0 {
					// only workload fault events remain; they cannot make progress by themselves
					res.Quiescent = true
					break
				}
				k := c.sched.IntN(total)
				if k < len(nfx) {
					ev = nfx[k]
				} else {
					m := c.pickDelivery(ms)
					if m != ms[0] {
						c.Stats.NonFIFO++
					}
					ev = c.deliverEvent(m)
				}
				chosen = true
			}
		}
		c.Trace = append(c.Trace, ev.Key)
		if ev.Msg != nil && (ev.Kind == "deliver" || ev.Kind == "dup" || ev.Kind == "redeliver" || ev.Kind == "inject" || ev.Kind == "conflict") {
			// simulated latency: a pure function of the run seed and the message key
			lat := time.Duration(1+c.Seed.Sub("lat:"+ev.Msg.Key()).U64()%50) * time.Millisecond
			time.Sleep(lat)
		}
		if err := ev.Apply(c); err != nil {
			return RunResult{Err: fmt.Errorf("step %d apply %q: %w", c.Step, ev.Key, err)}
		}
		if ev.Kind == "deliver" {
			c.Stats.Delivered++
		}
		if ev.Msg != nil && c.OnHand != nil {
			c.OnHand(c, ev.Msg, ev.Kind)
		}
		c.Stats.Fired[ev.Kind]++
		c.Step++
		c.Stats.Steps = c.Step
	}
	synctest.Wait()
	res.Blocked = c.blocked()
	c.Stats.SimTime = time.Since(c.start)
	return res
}

func (c *Cluster) blocked() []*Task {
	var out []*Task
	for _, t := range c.Tasks {
		if !t.Done() {
			out = append(out, t)
		}
	}
	return out
}

func (c *Cluster) findEvent(key string, ms []*Msg, extra []Event) (Event, bool) {
	sp := strings.IndexByte(key, ' ')
	if sp < 0 {
		return Event{}, false
	}
	kind, rest := key[:sp], key[sp+1:]
	switch kind {
	case "deliver":
		for _, m := range ms {
			if m.Key() == rest {
				return c.deliverEvent(m), true
			}
		}
	case "dup":
		for _, m := range ms {
			if m.Key() == rest {
				return Event{Key: key, Kind: "dup", Fault: true, Msg: m, Apply: func(c *Cluster) error { return c.Net.Hand(m, true) }}, true
			}
		}
	case "redeliver":
		for _, m := range c.Net.Delivered() {
			if m.Key() == rest && c.Net.ReaderWaiting(m.To) {
				return Event{Key: key, Kind: "redeliver", Fault: true, Msg: m, Apply: func(c *Cluster) error { return c.Net.Hand(m, true) }}, true
			}
		}
	case "inject":
		// the key carries the whole message: "<from>><to>#<link>.<copy> <hex>"
		var m Msg
		var hx string
		if _, err := fmt.Sscanf(rest, "%d>%d#|%d.%d %s", &m.From, &m.To, &m.Link, &m.Copy, &hx); err == nil {
			if b, err := hex.DecodeString(hx); err == nil && c.Net.ReaderWaiting(m.To) {
				m.Bytes, m.Kind = b, KindInject
				return c.injectEvent(&m), true
			}
		}
	}
	for _, e := range extra {
		if e.Key == key {
			return e, true
		}
	}
	return Event{}, false
}

// Drain ends the run: cancels every task context and waits for the bubble to
// settle. Workloads close their routers before calling it.
func (c *Cluster) Drain() {
	for _, t := range c.Tasks {
		t.Cancel()
	}
	synctest.Wait()
	c.wg.Wait()
}

// InvariantError marks a violation found by the per-step invariant.
type InvariantError struct {
	Step int
	Err  error
}

func (e *InvariantError) Error() string { return fmt.Sprintf("invariant at step %d: %v", e.Step, e.Err) }
func (e *InvariantError) Unwrap() error { return e.Err }
