package checks

import (
	"context"
	"fmt"
	"testing"
	"testing/synctest"

	"github.com/bronlabs/bron-crypto/pkg/base/curves/k256"
	"github.com/bronlabs/bron-crypto/pkg/base/serde"
	"github.com/bronlabs/bron-crypto/pkg/mpc"
	"github.com/bronlabs/bron-crypto/pkg/mpc/dkg/trusteddealer"
	"github.com/bronlabs/bron-crypto/pkg/mpc/session"
	l17dkg "github.com/bronlabs/bron-crypto/pkg/mpc/signatures/ecdsa/lindell17/keygen/dkg"
	l17dealer "github.com/bronlabs/bron-crypto/pkg/mpc/signatures/ecdsa/lindell17/keygen/trusted_dealer"
	"github.com/bronlabs/bron-crypto/pkg/network"
	"github.com/bronlabs/bron-crypto/pkg/proofs/sigma/compiler"
	"github.com/bronlabs/bron-crypto/pkg/proofs/sigma/compiler/fiatshamir"
	"github.com/bronlabs/bron-crypto/pkg/proofs/sigma/compiler/fischlin"
	"github.com/bronlabs/bron-crypto/pkg/proofs/sigma/compiler/randfischlin"

	"verif/harness"
	"verif/sim"
)

// runLindell17Keygen is workload C03/lindell17-keygen: the Lindell17 key
// material (ECDSA shares plus, per qualified pair, Paillier keys and encrypted
// share components) from the trusted dealer or from the Lindell17 DKG run over
// the simulated network on top of dealt base shards.
//
// Oracle: the C03 shard oracle on the ECDSA part (reference reconstruction over
// all subsets); every holder stores Paillier material exactly for the peers it
// forms a qualified pair with (reference policy evaluator); what i stores about
// j is j's real Paillier key and encryptions of j's real share components; the
// shards survive their own encoding; two dealings with different readers give
// different ECDSA keys.
func runLindell17Keygen(rc *harness.RunCtx, useDKG bool) harness.Outcome {
	w := rc.Seed.Sub("workload").Rand()
	probes := map[string]int{}
	curve := k256.NewCurve()
	kit := kitK256()
	n := 2 + w.IntN(3)
	if useDKG {
		n = 2 + w.IntN(2)
	}
	var spec *acSpec
	for tries := 0; ; tries++ {
		kind := ""
		if tries > 6 {
			kind = "threshold"
		}
		s, err := genAccess(w, n, kind)
		if err != nil {
			return harness.Outcome{Violation: &harness.Violation{Class: "policy-refused", Site: "accessstructures", Detail: err.Error()}}
		}
		if s.expectRefusal != "" || refusedByDesign(kit, s) {
			continue
		}
		if q := drawQuorum(w, s, true, map[string]int{}); q != nil {
			spec = s
			break
		}
		if tries > 30 {
			return harness.Outcome{HarnessErr: fmt.Errorf("no structure with a qualified pair")}
		}
	}
	comp := []compiler.Name{fiatshamir.Name, fischlin.Name, randfischlin.Name}[w.IntN(3)]
	class := fmt.Sprintf("keygen=lindell17 ac=%s n=%d dkg=%v", spec.kind, n, useDKG)
	if useDKG {
		class += " comp=" + string(comp)
	}
	var stats sim.Stats
	var trace []string
	out := func(v *harness.Violation) harness.Outcome {
		return harness.Outcome{Violation: v, Class: class, NonTrivial: true, Trace: trace, Stats: stats, Probes: probes,
			Sample: map[string]any{"workload": "lindell17-keygen", "config": class, "policy": spec.desc}}
	}
	fail := func(cl, f string, a ...any) harness.Outcome {
		return out(&harness.Violation{Class: cl, Site: "lindell17-keygen", Detail: fmt.Sprintf(f, a...)})
	}
	shards := map[sim.ID]*l17Shard{}
	if !useDKG {
		dealt, pub, err := l17dealer.DealRandom(curve, spec.lib, l17KeyLen, sim.NewRand(rc.Seed.Sub("rand/dealer")))
		if err != nil {
			return fail("honest-run-error", "trusted dealer: %s", oneLineErr(err))
		}
		for id, sh := range dealt.Iter() {
			shards[id] = sh
		}
		for id, sh := range shards {
			if !sh.PublicKeyValue().Equal(pub.Value()) {
				return fail("public-key-mismatch", "the dealer reports another public key than the shard of %d", id)
			}
		}
		// an independent dealing gives an independent key
		dealt2, pub2, err := l17dealer.DealRandom(curve, spec.lib, l17KeyLen, sim.NewRand(rc.Seed.Sub("rand/dealer2")))
		if err != nil {
			return fail("honest-run-error", "trusted dealer (second dealing): %s", oneLineErr(err))
		}
		_ = dealt2
		if pub2.Value().Equal(pub.Value()) {
			return fail("independent-runs-same-key", "two dealings with different random streams produced the same ECDSA key")
		}
		probes["independent_runs_compared"]++
		probes["keysource_dealer"]++
	} else {
		base, err := trusteddealer.Deal(curve, spec.lib, sim.NewRand(rc.Seed.Sub("rand/basedealer")))
		if err != nil {
			return fail("honest-run-error", "base dealer: %s", oneLineErr(err))
		}
		pr := newProtoRun(rc, spec.ids, true)
		for _, id := range spec.ids {
			id := id
			b, _ := base.Get(id)
			pr.start(script{name: fmt.Sprintf("D@%d", id), party: id, fn: func(ctx context.Context, rt *network.Router) (any, error) {
				rnd := sim.NewRand(rc.Seed.Sub(fmt.Sprintf("rand/%d/dkg", id)))
				sr, err := session.NewSessionRunner(id, quorumOf(spec.ids), rnd)
				if err != nil {
					return nil, err
				}
				sctx, err := sr.Run(ctx, rt.Namespaced("D-sess"), nil)
				if err != nil {
					return nil, err
				}
				r, err := l17dkg.NewRunner(sctx, b, l17KeyLen, curve, rnd, comp)
				if err != nil {
					return nil, err
				}
				return r.Run(ctx, rt.Namespaced("D-dkg"), nil)
			}})
		}
		if err := pr.run(); err != nil {
			pr.finish()
			return harness.Outcome{HarnessErr: err}
		}
		viol := pr.firstFailure("lindell17-dkg")
		if viol == nil {
			viol = pr.livenessViolation("lindell17-dkg")
		}
		pr.finish()
		stats, trace = pr.cl.Stats, pr.cl.Trace
		for k, v := range pr.probes {
			probes[k] += v
		}
		if viol != nil {
			return out(viol)
		}
		for _, id := range spec.ids {
			o, _ := pr.tasks[fmt.Sprintf("D@%d", id)].Result()
			sh, _ := o.(*l17Shard)
			if sh == nil {
				return fail("missing-shard", "holder %d completed the DKG without a shard", id)
			}
			shards[id] = sh
			// the DKG must hand back the very ECDSA share it was given
			b, _ := base.Get(id)
			if !sh.Share().Equal(b.Share()) {
				return fail("share-changed", "the Lindell17 DKG changed the ECDSA share of %d", id)
			}
		}
		probes["keysource_lindell17_dkg"]++
	}
	bs := map[sim.ID]*mpc.BaseShard[*k256Point, *k256Scalar]{}
	for id, sh := range shards {
		bs[id] = &sh.BaseShard
	}
	if _, v := checkShards(kit, spec, bs, w, "lindell17-keygen", probes); v != nil {
		return out(v)
	}
	// Paillier material exactly for the peers that complete a qualified pair
	for _, i := range spec.ids {
		for _, j := range spec.ids {
			if i == j {
				continue
			}
			_, hasKey := shards[i].PaillierPublicKeys().Get(j)
			_, hasCt := shards[i].EncryptedShares().Get(j)
			want := spec.qualified(map[sim.ID]bool{i: true, j: true})
			if hasKey != want || hasCt != want {
				return fail("pair-material-mismatch", "holder %d: Paillier key for %d present=%v, encrypted share present=%v, but {%d,%d} qualified=%v under %s", i, j, hasKey, hasCt, i, j, want, spec.desc)
			}
			if want {
				probes["qualified_pairs_cross_checked"]++
			}
		}
	}
	if v := l17CrossCheck(shards, "lindell17-keygen"); v != nil {
		return out(v)
	}
	// persistence
	for _, id := range spec.ids {
		enc, err := serde.MarshalCBOR(shards[id])
		if err != nil {
			return fail("encode-error", "shard of %d: %v", id, err)
		}
		re, err := serde.UnmarshalCBOR[*l17Shard](enc)
		if err != nil {
			return fail("reload-failed", "Lindell17 shard of %d does not reload from its own encoding: %s", id, oneLineErr(err))
		}
		if !re.Equal(shards[id]) {
			return fail("reload-changed-key", "reloaded Lindell17 shard of %d differs from the stored one", id)
		}
		enc2, err := serde.MarshalCBOR(re)
		if err != nil || string(enc2) != string(enc) {
			return fail("reload-changed-key", "re-encoding the reloaded Lindell17 shard of %d gives other bytes", id)
		}
		probes["reloaded"]++
	}
	if spec.nonIdeal {
		probes["non_ideal_structure"]++
	}
	probes["family_"+spec.kind]++
	o := out(nil)
	o.Digest = fmt.Sprintf("%x", shards[spec.ids[0]].PublicKeyValue().Bytes())
	return o
}

func l17KeygenWorkload(name string, useDKG bool, quick, thorough int) harness.Workload {
	return harness.Workload{Name: name, Quick: quick, Thorough: thorough, Run: func(rc *harness.RunCtx) (out harness.Outcome) {
		synctest.Test(rc.T, func(t *testing.T) { out = runLindell17Keygen(rc, useDKG) })
		return out
	}}
}
