package checks

import (
	"crypto/sha256"
	"crypto/sha512"
	"fmt"
	"io"
	"math/rand/v2"
	"testing"
	"testing/synctest"

	"github.com/bronlabs/bron-crypto/pkg/base/algebra"
	"github.com/bronlabs/bron-crypto/pkg/base/datastructures/hashmap"
	"github.com/bronlabs/bron-crypto/pkg/mpc"
	"github.com/bronlabs/bron-crypto/pkg/mpc/dkg/trusteddealer"
	"github.com/bronlabs/bron-crypto/pkg/mpc/session"
	mpcschnorr "github.com/bronlabs/bron-crypto/pkg/mpc/signatures/schnorr"
	l22keygen "github.com/bronlabs/bron-crypto/pkg/mpc/signatures/schnorr/lindell22/keygen"
	l22signing "github.com/bronlabs/bron-crypto/pkg/mpc/signatures/schnorr/lindell22/signing"
	"github.com/bronlabs/bron-crypto/pkg/network"
	"github.com/bronlabs/bron-crypto/pkg/proofs/sigma/compiler"
	"github.com/bronlabs/bron-crypto/pkg/signatures/schnorrlike"
	"github.com/bronlabs/bron-crypto/pkg/signatures/schnorrlike/bip340"
	"github.com/bronlabs/bron-crypto/pkg/signatures/schnorrlike/mina"
	vanilla "github.com/bronlabs/bron-crypto/pkg/signatures/schnorrlike/schnorr"

	"github.com/bronlabs/bron-crypto/pkg/base/curves/edwards25519"
	"github.com/bronlabs/bron-crypto/pkg/base/curves/p256"

	"verif/harness"
	"verif/sim"
)

type (
	p256Point  = p256.Point
	p256Scalar = p256.Scalar
	edPoint    = edwards25519.PrimeSubGroupPoint
	edScalar   = edwards25519.Scalar
)

// Round-by-round twins of the runner workloads: the same protocols driven
// through their Round1 / Round2 / Round3 methods, without router and network.
// The "schedule" of such a run is the order in which the parties' round
// functions are called (a seeded shuffle per round); every message goes
// through its CBOR encoding, unicasts per recipient. Session contexts come
// from the real session participants driven the same way.

// l22Lockstep cosigns with Lindell22 round by round and returns the partial signatures.
func l22Lockstep[G algebra.PrimeGroupElement[G, S], S algebra.PrimeFieldElement[S], M schnorrlike.Message](
	quorum []sim.ID, sctxs map[sim.ID]*session.Context, shards map[sim.ID]*mpc.BaseShard[G, S], comp compiler.Name,
	variant func(io.Reader) (mpcschnorr.MPCFriendlyVariant[G, S, M], error), msg M, rnd func(sim.ID) io.Reader, order *rand.Rand,
) (map[sim.ID]any, error) {
	type cos = l22signing.Cosigner[G, S, M]
	perm := func() []sim.ID {
		o := append([]sim.ID(nil), quorum...)
		order.Shuffle(len(o), func(i, j int) { o[i], o[j] = o[j], o[i] })
		return o
	}
	cs := map[sim.ID]*cos{}
	for _, id := range perm() {
		r := rnd(id)
		v, err := variant(r)
		if err != nil {
			return nil, err
		}
		shard, err := l22keygen.NewShard(shards[id])
		if err != nil {
			return nil, err
		}
		c, err := l22signing.NewCosigner(sctxs[id], shard, comp, v, r)
		if err != nil {
			return nil, fmt.Errorf("cosigner %d: %w", id, err)
		}
		cs[id] = c
	}
	r1b := map[sim.ID]*l22signing.Round1Broadcast[G, S, M]{}
	r1u := map[sim.ID]network.OutgoingUnicasts[*l22signing.Round1P2P[G, S, M], *cos]{}
	for _, id := range perm() {
		b, u, err := cs[id].Round1()
		if err != nil {
			return nil, fmt.Errorf("round 1 of %d: %w", id, err)
		}
		if r1b[id], err = viaCBOR(b); err != nil {
			return nil, err
		}
		r1u[id] = u
	}
	r2b := map[sim.ID]*l22signing.Round2Broadcast[G, S, M]{}
	for _, id := range perm() {
		inB := hashmap.NewComparable[sim.ID, *l22signing.Round1Broadcast[G, S, M]]()
		inU := hashmap.NewComparable[sim.ID, *l22signing.Round1P2P[G, S, M]]()
		for _, o := range quorum {
			if o == id {
				continue
			}
			inB.Put(o, r1b[o])
			if r1u[o] != nil {
				if m, ok := r1u[o].Get(id); ok {
					mm, err := viaCBOR(m)
					if err != nil {
						return nil, err
					}
					inU.Put(o, mm)
				}
			}
		}
		b, err := cs[id].Round2(inB.Freeze(), inU.Freeze())
		if err != nil {
			return nil, fmt.Errorf("round 2 of %d: %w", id, err)
		}
		if r2b[id], err = viaCBOR(b); err != nil {
			return nil, err
		}
	}
	out := map[sim.ID]any{}
	for _, id := range perm() {
		inB := hashmap.NewComparable[sim.ID, *l22signing.Round2Broadcast[G, S, M]]()
		for _, o := range quorum {
			if o != id {
				inB.Put(o, r2b[o])
			}
		}
		ps, err := cs[id].Round3(inB.Freeze(), msg)
		if err != nil {
			return nil, fmt.Errorf("round 3 of %d: %w", id, err)
		}
		if out[id], err = viaCBOR(ps); err != nil {
			return nil, err
		}
	}
	return out, nil
}

// runLockstepSign: access structure, dealt shards, quorum and message as in
// the runner workloads; signing round by round; the same judge.
func runLockstepSign[G algebra.PrimeGroupElement[G, S], S algebra.PrimeFieldElement[S]](rc *harness.RunCtx, fl *signFlavor[G, S],
	cosign func(quorum []sim.ID, sctxs map[sim.ID]*session.Context, shards map[sim.ID]*mpc.BaseShard[G, S], comp compiler.Name, msg []byte, rnd func(sim.ID) io.Reader, order *rand.Rand) (map[sim.ID]any, error),
) harness.Outcome {
	if err := selfCheckKit(fl.kit); err != nil {
		return harness.Outcome{HarnessErr: err}
	}
	w := rc.Seed.Sub("workload").Rand()
	probes := map[string]int{}
	var spec *acSpec
	var quorum []sim.ID
	for tries := 0; ; tries++ {
		s, err := genAccess(w, 2+w.IntN(4), "")
		if err != nil {
			return harness.Outcome{Violation: &harness.Violation{Class: "policy-refused", Site: "accessstructures", Detail: err.Error()}}
		}
		if s.expectRefusal != "" || refusedByDesign(fl.kit, s) {
			continue
		}
		if q := drawQuorum(w, s, false, probes); len(q) >= 2 {
			spec, quorum = s, q
			break
		}
		if tries > 30 {
			return harness.Outcome{HarnessErr: fmt.Errorf("no structure with a quorum of at least two")}
		}
	}
	comp := niCompilers[w.IntN(len(niCompilers))]
	class := fmt.Sprintf("lockstep sign=%s ac=%s n=%d q=%d comp=%s", fl.name, spec.kind, len(spec.ids), len(quorum), comp)
	out := func(v *harness.Violation) harness.Outcome {
		return harness.Outcome{Violation: v, Class: class, NonTrivial: true, Probes: probes, Trace: []string{class},
			Sample: map[string]any{"workload": "lockstep-sign", "config": class, "policy": spec.desc, "quorum": quorum}}
	}
	dealt, err := trusteddealer.Deal(fl.kit.group, spec.lib, sim.NewRand(rc.Seed.Sub("rand/dealer")))
	if err != nil {
		return out(&harness.Violation{Class: "honest-run-error", Site: "trusteddealer", Detail: oneLineErr(err)})
	}
	shards := map[sim.ID]*mpc.BaseShard[G, S]{}
	for id, sh := range dealt.Iter() {
		shards[id] = sh
	}
	order := rc.Seed.Sub("order").Rand()
	sctxs, err := lockstepSession(quorum, rc.Seed.Sub("sess"), order)
	if err != nil {
		return out(&harness.Violation{Class: "honest-run-error", Site: "session (round by round)", Detail: oneLineErr(err)})
	}
	msg := drawMessage(w)
	if fl.nonEmptyMsg && len(msg) == 0 {
		msg = []byte{0x42}
	}
	rnd := func(id sim.ID) io.Reader { return sim.NewRand(rc.Seed.Sub(fmt.Sprintf("rand/%d/sign", id))) }
	partials, err := cosign(quorum, sctxs, shards, comp, msg, rnd, order)
	if err != nil {
		return out(&harness.Violation{Class: "honest-run-error", Site: fl.name + " (round by round)", Detail: oneLineErr(err)})
	}
	ss := signSession{name: "S", quorum: quorum, msg: msg}
	_, sig, v := judgeSignature(fl, ss, shards, partials, rc.Seed, probes)
	if v != nil {
		return out(v)
	}
	probes["round_by_round_runs"]++
	probes["family_"+spec.kind]++
	if spec.nonIdeal {
		probes["non_ideal_structure"]++
	}
	o := out(nil)
	o.Digest = fmt.Sprintf("%x", fl.nonce(sig))
	return o
}

func runLockstepFlavor(rc *harness.RunCtx) (out harness.Outcome) {
	synctest.Test(rc.T, func(t *testing.T) {
		w := rc.Seed.Sub("flavor").Rand()
		switch w.IntN(4) {
		case 0:
			out = runLockstepSign(rc, flavorL22BIP340(), func(q []sim.ID, sc map[sim.ID]*session.Context, sh map[sim.ID]*mpc.BaseShard[*k256Point, *k256Scalar], comp compiler.Name, msg []byte, rnd func(sim.ID) io.Reader, order *rand.Rand) (map[sim.ID]any, error) {
				return l22Lockstep(q, sc, sh, comp, func(r io.Reader) (mpcschnorr.MPCFriendlyVariant[*k256Point, *k256Scalar, []byte], error) {
					s, err := bip340.NewScheme(r)
					if err != nil {
						return nil, err
					}
					return s.Variant(), nil
				}, msg, rnd, order)
			})
		case 1:
			neg, le := w.IntN(2) == 0, w.IntN(2) == 0
			kit := kitP256()
			out = runLockstepSign(rc, flavorL22Vanilla(kit, "sha256", sha256.New, neg, le), func(q []sim.ID, sc map[sim.ID]*session.Context, sh map[sim.ID]*mpc.BaseShard[*p256Point, *p256Scalar], comp compiler.Name, msg []byte, rnd func(sim.ID) io.Reader, order *rand.Rand) (map[sim.ID]any, error) {
				return l22Lockstep(q, sc, sh, comp, func(r io.Reader) (mpcschnorr.MPCFriendlyVariant[*p256Point, *p256Scalar, []byte], error) {
					s, err := vanilla.NewScheme(kit.group, sha256.New, neg, le, nil, r)
					if err != nil {
						return nil, err
					}
					return s.Variant(), nil
				}, msg, rnd, order)
			})
		case 2:
			kit := kitEd25519()
			out = runLockstepSign(rc, flavorL22Vanilla(kit, "sha512", sha512.New, false, true), func(q []sim.ID, sc map[sim.ID]*session.Context, sh map[sim.ID]*mpc.BaseShard[*edPoint, *edScalar], comp compiler.Name, msg []byte, rnd func(sim.ID) io.Reader, order *rand.Rand) (map[sim.ID]any, error) {
				return l22Lockstep(q, sc, sh, comp, func(r io.Reader) (mpcschnorr.MPCFriendlyVariant[*edPoint, *edScalar, []byte], error) {
					s, err := vanilla.NewScheme(kit.group, sha512.New, false, true, nil, r)
					if err != nil {
						return nil, err
					}
					return s.Variant(), nil
				}, msg, rnd, order)
			})
		default:
			nid := []mina.NetworkID{mina.MainNet, mina.TestNet}[w.IntN(2)]
			out = runLockstepSign(rc, flavorL22Mina(nid), func(q []sim.ID, sc map[sim.ID]*session.Context, sh map[sim.ID]*mpc.BaseShard[*pallasPoint, *pallasScalar], comp compiler.Name, msg []byte, rnd func(sim.ID) io.Reader, order *rand.Rand) (map[sim.ID]any, error) {
				return l22Lockstep(q, sc, sh, comp, func(r io.Reader) (mpcschnorr.MPCFriendlyVariant[*pallasPoint, *pallasScalar, *mina.Message], error) {
					return mina.NewRandomisedVariant(nid, r)
				}, minaMessage(msg), rnd, order)
			})
		}
	})
	return out
}
