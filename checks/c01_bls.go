package checks

import (
	"bytes"
	"context"
	"fmt"
	"io"
	"math/big"

	"github.com/bronlabs/bron-crypto/pkg/base/curves/pairable/bls12381"
	"github.com/bronlabs/bron-crypto/pkg/base/datastructures/hashmap"
	"github.com/bronlabs/bron-crypto/pkg/base/serde"
	"github.com/bronlabs/bron-crypto/pkg/mpc"
	"github.com/bronlabs/bron-crypto/pkg/mpc/session"
	"github.com/bronlabs/bron-crypto/pkg/mpc/signatures/bls/boldyreva02"
	blskeygen "github.com/bronlabs/bron-crypto/pkg/mpc/signatures/bls/boldyreva02/keygen"
	blssigning "github.com/bronlabs/bron-crypto/pkg/mpc/signatures/bls/boldyreva02/signing"
	"github.com/bronlabs/bron-crypto/pkg/network"
	"github.com/bronlabs/bron-crypto/pkg/proofs/sigma/compiler"
	"github.com/bronlabs/bron-crypto/pkg/signatures/bls"

	"verif/harness"
	"verif/sim"
)

type (
	g1  = bls12381.PointG1
	g2  = bls12381.PointG2
	f1  = bls12381.BaseFieldElementG1
	f2  = bls12381.BaseFieldElementG2
	gt  = bls12381.GtElement
	bsc = bls12381.Scalar
)

var blsAlgs = []bls.RogueKeyPreventionAlgorithm{bls.Basic, bls.MessageAugmentation, bls.POP}

func scalarFromBig(x *big.Int) (*bsc, error) {
	f := bls12381.NewScalarField()
	buf := make([]byte, len(f.One().Bytes()))
	x.FillBytes(buf)
	return f.FromBytes(buf)
}

// flavorBLSShort: Boldyreva threshold BLS, public keys in G1, signatures in G2.
// No independent pairing implementation is available: the oracle is the
// library verifier plus an omniscient check (the threshold signature must be
// byte-identical to the single-party signature under the reconstructed key:
// BLS signing is deterministic).
func flavorBLSShort(alg bls.RogueKeyPreventionAlgorithm) *signFlavor[*g1, *bsc] {
	fam := &bls12381.FamilyTrait{}
	f := &signFlavor[*g1, *bsc]{name: fmt.Sprintf("boldyreva02/short-key/%v", alg), kit: kitBLSG1(), randomized: false, independent: "semi-independent: library verifier + equality with the single-party signature under the reference-reconstructed key"}
	f.sign = func(_ context.Context, _ *network.Router, sctx *session.Context, base *mpc.BaseShard[*g1, *bsc], _ compiler.Name, msg []byte, _ io.Reader) (any, error) {
		shard, err := blskeygen.NewShortKeyShard[*g1, *f1, *g2, *f2, *gt, *bsc](base)
		if err != nil {
			return nil, err
		}
		cs, err := blssigning.NewShortKeyCosigner(sctx, fam, shard, alg)
		if err != nil {
			return nil, err
		}
		return cs.ProducePartialSignature(msg)
	}
	f.aggregate = func(base *mpc.BaseShard[*g1, *bsc], partials map[sim.ID]any, msg []byte, _ io.Reader) ([]byte, any, error) {
		shard, err := blskeygen.NewShortKeyShard[*g1, *f1, *g2, *f2, *gt, *bsc](base)
		if err != nil {
			return nil, nil, err
		}
		agg, err := blssigning.NewShortKeyAggregator(fam, shard.PublicKeyMaterial(), alg)
		if err != nil {
			return nil, nil, err
		}
		pm := hashmap.NewComparable[sim.ID, *boldyreva02.PartialSignature[*g2, *f2, *g1, *f1, *gt, *bsc]]()
		for id, p := range partials {
			pm.Put(id, p.(*boldyreva02.PartialSignature[*g2, *f2, *g1, *f1, *gt, *bsc]))
		}
		sig, err := agg.Aggregate(pm.Freeze(), msg)
		if err != nil {
			return nil, nil, err
		}
		return sig.Bytes(), sig, nil
	}
	f.libVerify = func(pk *g1, msg []byte, sig any) error {
		scheme, err := bls.NewShortKeyScheme(fam, alg)
		if err != nil {
			return err
		}
		vf, err := scheme.Verifier()
		if err != nil {
			return err
		}
		lpk, err := bls.NewPublicKey(pk)
		if err != nil {
			return err
		}
		return vf.Verify(sig.(*bls.Signature[*g2, *f2, *g1, *f1, *gt, *bsc]), lpk, msg)
	}
	f.omni = func(x *big.Int, _ *g1, msg []byte, sig any) error {
		s, err := scalarFromBig(x)
		if err != nil {
			return err
		}
		scheme, err := bls.NewShortKeyScheme(fam, alg)
		if err != nil {
			return err
		}
		sk, err := bls.NewPrivateKey(fam.SourceSubGroup(), s)
		if err != nil {
			return err
		}
		signer, err := scheme.Signer(sk)
		if err != nil {
			return err
		}
		single, err := signer.Sign(msg)
		if err != nil {
			return err
		}
		if !bytes.Equal(single.Bytes(), sig.(*bls.Signature[*g2, *f2, *g1, *f1, *gt, *bsc]).Bytes()) {
			return fmt.Errorf("threshold signature differs from the single-party signature under the reconstructed key")
		}
		return nil
	}
	f.nonce = func(sig any) []byte { return sig.(*bls.Signature[*g2, *f2, *g1, *f1, *gt, *bsc]).Bytes() }
	f.encPartial = func(p any) ([]byte, error) {
		return serde.MarshalCBOR(p.(*boldyreva02.PartialSignature[*g2, *f2, *g1, *f1, *gt, *bsc]))
	}
	f.decPartial = func(b []byte) (any, error) {
		return serde.UnmarshalCBOR[*boldyreva02.PartialSignature[*g2, *f2, *g1, *f1, *gt, *bsc]](b)
	}
	return f
}

// flavorBLSLong: public keys in G2, signatures in G1.
func flavorBLSLong(alg bls.RogueKeyPreventionAlgorithm) *signFlavor[*g2, *bsc] {
	fam := &bls12381.FamilyTrait{}
	f := &signFlavor[*g2, *bsc]{name: fmt.Sprintf("boldyreva02/long-key/%v", alg), kit: kitBLSG2(), randomized: false, independent: "semi-independent: library verifier + equality with the single-party signature under the reference-reconstructed key"}
	f.sign = func(_ context.Context, _ *network.Router, sctx *session.Context, base *mpc.BaseShard[*g2, *bsc], _ compiler.Name, msg []byte, _ io.Reader) (any, error) {
		shard, err := blskeygen.NewLongKeyShard[*g2, *f2, *g1, *f1, *gt, *bsc](base)
		if err != nil {
			return nil, err
		}
		cs, err := blssigning.NewLongKeyCosigner(sctx, fam, shard, alg)
		if err != nil {
			return nil, err
		}
		return cs.ProducePartialSignature(msg)
	}
	f.aggregate = func(base *mpc.BaseShard[*g2, *bsc], partials map[sim.ID]any, msg []byte, _ io.Reader) ([]byte, any, error) {
		shard, err := blskeygen.NewLongKeyShard[*g2, *f2, *g1, *f1, *gt, *bsc](base)
		if err != nil {
			return nil, nil, err
		}
		agg, err := blssigning.NewLongKeyAggregator(fam, shard.PublicKeyMaterial(), alg)
		if err != nil {
			return nil, nil, err
		}
		pm := hashmap.NewComparable[sim.ID, *boldyreva02.PartialSignature[*g1, *f1, *g2, *f2, *gt, *bsc]]()
		for id, p := range partials {
			pm.Put(id, p.(*boldyreva02.PartialSignature[*g1, *f1, *g2, *f2, *gt, *bsc]))
		}
		sig, err := agg.Aggregate(pm.Freeze(), msg)
		if err != nil {
			return nil, nil, err
		}
		return sig.Bytes(), sig, nil
	}
	f.libVerify = func(pk *g2, msg []byte, sig any) error {
		scheme, err := bls.NewLongKeyScheme(fam, alg)
		if err != nil {
			return err
		}
		vf, err := scheme.Verifier()
		if err != nil {
			return err
		}
		lpk, err := bls.NewPublicKey(pk)
		if err != nil {
			return err
		}
		return vf.Verify(sig.(*bls.Signature[*g1, *f1, *g2, *f2, *gt, *bsc]), lpk, msg)
	}
	f.omni = func(x *big.Int, _ *g2, msg []byte, sig any) error {
		s, err := scalarFromBig(x)
		if err != nil {
			return err
		}
		scheme, err := bls.NewLongKeyScheme(fam, alg)
		if err != nil {
			return err
		}
		sk, err := bls.NewPrivateKey(fam.TwistedSubGroup(), s)
		if err != nil {
			return err
		}
		signer, err := scheme.Signer(sk)
		if err != nil {
			return err
		}
		single, err := signer.Sign(msg)
		if err != nil {
			return err
		}
		if !bytes.Equal(single.Bytes(), sig.(*bls.Signature[*g1, *f1, *g2, *f2, *gt, *bsc]).Bytes()) {
			return fmt.Errorf("threshold signature differs from the single-party signature under the reconstructed key")
		}
		return nil
	}
	f.nonce = func(sig any) []byte { return sig.(*bls.Signature[*g1, *f1, *g2, *f2, *gt, *bsc]).Bytes() }
	f.encPartial = func(p any) ([]byte, error) {
		return serde.MarshalCBOR(p.(*boldyreva02.PartialSignature[*g1, *f1, *g2, *f2, *gt, *bsc]))
	}
	f.decPartial = func(b []byte) (any, error) {
		return serde.UnmarshalCBOR[*boldyreva02.PartialSignature[*g1, *f1, *g2, *f2, *gt, *bsc]](b)
	}
	return f
}

func init() {
	extraSignFlavors["boldyreva-short"] = func(rc *harness.RunCtx) harness.Outcome {
		alg := blsAlgs[rc.Seed.Sub("alg").U64()%3]
		fl := flavorBLSShort(alg)
		fl.nonEmptyMsg = true
		return runSignWith(rc, fl, true)
	}
	extraSignFlavors["boldyreva-long"] = func(rc *harness.RunCtx) harness.Outcome {
		alg := blsAlgs[rc.Seed.Sub("alg").U64()%3]
		fl := flavorBLSLong(alg)
		fl.nonEmptyMsg = true
		return runSignWith(rc, fl, true)
	}
}
