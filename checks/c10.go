package checks

import "verif/harness"

// C10Workloads lists the simulated-run families that decide C10.
func C10Workloads() []harness.Workload {
	return []harness.Workload{
		{Name: "session-runner", Quick: 300, Thorough: 30000, Run: RunSessionHonest},
		// the adversarial clause of C10 (an opening that does not match its commitment is
		// rejected and blamed by the recipient; honest parties that complete agree): every
		// single-fault cell of the session-setup scenario, the same cells C04 runs
		c04Workload("session", 100000),
	}
}
