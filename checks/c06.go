package checks

import (
	"bytes"
	"context"
	"crypto/sha256"
	"crypto/sha512"
	"fmt"
	"math/big"
	"math/rand/v2"
	"strings"
	"testing"
	"testing/synctest"

	"github.com/bronlabs/bron-crypto/pkg/base/algebra"
	"github.com/bronlabs/bron-crypto/pkg/base/serde"
	"github.com/bronlabs/bron-crypto/pkg/mpc"
	"github.com/bronlabs/bron-crypto/pkg/mpc/dkg/trusteddealer"
	"github.com/bronlabs/bron-crypto/pkg/mpc/redistribute"
	"github.com/bronlabs/bron-crypto/pkg/mpc/session"
	"github.com/bronlabs/bron-crypto/pkg/network"

	"verif/harness"
	"verif/sim"
)

// epoch is one generation of key material in a history.
type epoch[G algebra.PrimeGroupElement[G, S], S algebra.PrimeFieldElement[S]] struct {
	n      int
	spec   *acSpec
	shards map[sim.ID]*mpc.BaseShard[G, S]
	how    string
}

// histRun carries a C06 history.
type histRun[G algebra.PrimeGroupElement[G, S], S algebra.PrimeFieldElement[S]] struct {
	rc      *harness.RunCtx
	kit     *groupKit[G, S]
	fl      *signFlavor[G, S]
	w       *rand.Rand
	probes  map[string]int
	facts   *keyFacts // the reference model: x and Y never change
	epochs  []*epoch[G, S]
	ops     []string
	trace   []string
	stats   sim.Stats
	nontriv bool
	opIdx   int
}

func unionIDs(a, b []sim.ID) []sim.ID {
	m := idSet(a)
	out := append([]sim.ID(nil), a...)
	for _, id := range b {
		if !m[id] {
			out = append(out, id)
		}
	}
	return sortedIDs(out)
}

// subRC gives each operation of a history its own seed and its slice of the replay trace.
func (h *histRun[G, S]) subRC() *harness.RunCtx {
	rc2 := *h.rc
	rc2.Seed = h.rc.Seed.SubN("op", uint64(h.opIdx))
	prefix := fmt.Sprintf("%d|", h.opIdx)
	if h.rc.Replay != nil {
		rc2.Replay = []string{}
		for _, d := range h.rc.Replay {
			if strings.HasPrefix(d, prefix) {
				rc2.Replay = append(rc2.Replay, d[len(prefix):])
			}
		}
	}
	return &rc2
}

func (h *histRun[G, S]) absorb(pr *protoRun) {
	prefix := fmt.Sprintf("%d|", h.opIdx)
	for _, d := range pr.cl.Trace {
		h.trace = append(h.trace, prefix+d)
	}
	h.stats.Steps += pr.cl.Stats.Steps
	h.stats.Delivered += pr.cl.Stats.Delivered
	h.stats.NonFIFO += pr.cl.Stats.NonFIFO
	h.stats.SimTime += pr.cl.Stats.SimTime
	if h.stats.Fired == nil {
		h.stats.Fired = map[string]int{}
	}
	for k, v := range pr.cl.Stats.Fired {
		h.stats.Fired[k] += v
	}
	for k, v := range pr.probes {
		h.probes[k] += v
	}
	if pr.nontrivial() {
		h.nontriv = true
	}
}

// redistribute runs one redistribution step (refresh / recovery / change of
// structure are all this protocol with different arguments). abortVictim != 0
// cancels that party at a scheduler-chosen point.
func (h *histRun[G, S]) redistribute(cur *epoch[G, S], prev []sim.ID, next *acSpec, anchor bool, abortVictim sim.ID, how string) (*epoch[G, S], map[sim.ID]error, *harness.Violation, error) {
	quorum := unionIDs(prev, next.ids)
	rc := h.subRC()
	pr := newProtoRun(rc, quorum, true)
	prevSet := idSet(prev)
	anchorID := prev[h.w.IntN(len(prev))] // any driving previous holder may be the trusted anchor
	for _, id := range quorum {
		id := id
		var prevShard *mpc.BaseShard[G, S]
		if prevSet[id] {
			prevShard = cur.shards[id]
		} else if h.w.IntN(2) == 0 {
			// A party that does not drive the step (a holder being recovered, a holder that
			// merely receives) may still hand in whatever shard it has: the API accepts it
			// and documents it as irrelevant. Oldest epoch first: a stale shard whose public
			// data differs from the current epoch's.
			for _, e := range h.epochs {
				if sh := e.shards[id]; sh != nil {
					prevShard = sh
					h.probes["non_driver_hands_in_old_shard"]++
					break
				}
			}
		}
		pr.start(script{name: fmt.Sprintf("R@%d", id), party: id, fn: func(ctx context.Context, rt *network.Router) (any, error) {
			rnd := sim.NewRand(rc.Seed.Sub(fmt.Sprintf("rand/%d", id)))
			sr, err := session.NewSessionRunner(id, quorumOf(quorum), rnd)
			if err != nil {
				return nil, err
			}
			sctx, err := sr.Run(ctx, rt.Namespaced("sess"), nil)
			if err != nil {
				return nil, err
			}
			var opts []redistribute.Option
			if anchor && !prevSet[id] {
				opts = append(opts, redistribute.WithTrustedAnchorID(anchorID))
			}
			r, err := redistribute.NewRunner(sctx, quorumOf(prev), prevShard, next.libOf(id), rnd, opts...)
			if err != nil {
				return nil, err
			}
			return r.Run(ctx, rt.Namespaced("redist"), nil)
		}})
	}
	aborted := false
	if abortVictim != 0 {
		fm := pr.cl.Faults
		fm.ExtraRate = 0.04
		if fm.Budget < 3 {
			fm.Budget = 3
		}
		pr.cl.Faults = fm
		pr.cl.Extra = func(c *sim.Cluster) []sim.Event {
			if aborted {
				return nil
			}
			t := pr.tasks[fmt.Sprintf("R@%d", abortVictim)]
			if t == nil || t.Done() {
				return nil
			}
			return []sim.Event{{Key: fmt.Sprintf("crash %d", abortVictim), Kind: "crash", Fault: true, Apply: func(c *sim.Cluster) error {
				aborted = true
				t.Cancel()
				pr.routers[abortVictim].Close()
				return nil
			}}}
		}
	}
	if err := pr.run(); err != nil {
		pr.finish()
		return nil, nil, nil, err
	}
	var viol *harness.Violation
	if !aborted {
		viol = pr.firstFailure("redistribute/" + how)
		if viol == nil {
			viol = pr.livenessViolation("redistribute/" + how)
		}
	}
	errsBy := map[sim.ID]error{}
	ne := &epoch[G, S]{n: cur.n + 1, spec: next, shards: map[sim.ID]*mpc.BaseShard[G, S]{}, how: how}
	for _, id := range quorum {
		t := pr.tasks[fmt.Sprintf("R@%d", id)]
		if !t.Done() {
			errsBy[id] = fmt.Errorf("blocked")
			continue
		}
		if p, st := t.Panic(); p != nil && viol == nil {
			viol = &harness.Violation{Class: "panic", Site: "redistribute/" + how, Detail: fmt.Sprintf("party %d panicked: %v %s", id, p, firstLines(st, 10))}
		}
		o, err := t.Result()
		if err != nil {
			errsBy[id] = err
			continue
		}
		if sh, ok := o.(*mpc.BaseShard[G, S]); ok && sh != nil {
			ne.shards[id] = sh
		}
	}
	pr.finish()
	h.absorb(pr)
	if aborted {
		h.probes["aborted_operations"]++
	}
	return ne, errsBy, viol, nil
}

// signWith runs one signing session with the given (possibly mixed-epoch) shards.
func (h *histRun[G, S]) signWith(shards map[sim.ID]*mpc.BaseShard[G, S], quorum []sim.ID, msg []byte, expectOK bool, site string) (*harness.Violation, error) {
	return h.signWithStale(shards, quorum, msg, expectOK, true, site)
}

// signWithStale: staleEssential says whether the one member holding a share of
// another epoch is needed by the quorum (the quorum without it is unqualified).
// When it is not, the library's recombination may give that member weight zero,
// and the signature of the remaining same-epoch shares is legitimately valid:
// then a released signature only has to be valid.
func (h *histRun[G, S]) signWithStale(shards map[sim.ID]*mpc.BaseShard[G, S], quorum []sim.ID, msg []byte, expectOK, staleEssential bool, site string) (*harness.Violation, error) {
	rc := h.subRC()
	pr := newProtoRun(rc, quorum, true)
	ss := signSession{name: "S", quorum: quorum, msg: msg}
	comp := niCompilers[h.w.IntN(len(niCompilers))]
	for _, id := range quorum {
		id := id
		pr.start(signScript(h.fl, ss, id, comp, rc.Seed, func(context.Context) (*mpc.BaseShard[G, S], error) { return shards[id], nil }))
	}
	if err := pr.run(); err != nil {
		pr.finish()
		return nil, err
	}
	var viol *harness.Violation
	if expectOK {
		viol = pr.firstFailure(site)
		if viol == nil {
			viol = pr.livenessViolation(site)
		}
	}
	partials := map[sim.ID]any{}
	anyErr := false
	for _, id := range quorum {
		t := pr.tasks[fmt.Sprintf("S@%d", id)]
		if !t.Done() {
			anyErr = true
			continue
		}
		if p, st := t.Panic(); p != nil && viol == nil {
			viol = &harness.Violation{Class: "panic", Site: site, Detail: fmt.Sprintf("cosigner %d panicked: %v %s", id, p, firstLines(st, 10))}
		}
		o, err := t.Result()
		if err != nil {
			anyErr = true
			continue
		}
		partials[id] = o
	}
	pr.finish()
	h.absorb(pr)
	if viol != nil {
		return viol, nil
	}
	if expectOK {
		_, sig, v := judgeSignature(h.fl, ss, shards, partials, rc.Seed, h.probes)
		if v != nil {
			v.Site = site
			return v, nil
		}
		// the signature must verify under the ORIGINAL public key (the key never changes)
		pk0 := h.epochs[0].shards[h.epochs[0].spec.ids[0]].PublicKeyValue()
		if err := h.fl.refVerify(pk0, msg, sig); err != nil {
			return &harness.Violation{Class: "signature-not-under-original-key", Site: site, Detail: fmt.Sprintf("signature produced in epoch history %v does not verify under the genesis public key: %v", h.ops, err)}, nil
		}
		h.probes["signatures_under_genesis_key"]++
		return nil, nil
	}
	// mixed epochs: no accepted signature
	if !anyErr && len(partials) == len(quorum) {
		for _, a := range quorum {
			_, sig, err := h.fl.aggregate(shards[a], partials, msg, sim.NewRand(rc.Seed.Sub("agg")))
			if err != nil {
				continue
			}
			pk0 := h.epochs[0].shards[h.epochs[0].spec.ids[0]].PublicKeyValue()
			if h.fl.refVerify(pk0, msg, sig) == nil {
				if !staleEssential {
					h.probes["mixed_epoch_redundant_stale_member_signature_valid"]++
					return nil, nil
				}
				return &harness.Violation{Class: "mixed-epoch-signature-valid", Site: site, Detail: fmt.Sprintf("shards taken from different epochs produced a valid signature (history %v, quorum %v)", h.ops, quorum)}, nil
			}
			return &harness.Violation{Class: "mixed-epoch-signature-released", Site: site, Detail: fmt.Sprintf("aggregator %d released a signature from mixed-epoch shards (history %v)", a, h.ops)}, nil
		}
	}
	h.probes["mixed_epoch_signing_refused"]++
	return nil, nil
}

// mixCheck: shares of two epochs of the same structure never reconstruct x.
func (h *histRun[G, S]) mixCheck(a, b *epoch[G, S]) *harness.Violation {
	md, err := extractMSP(a.shards[a.spec.ids[0]].MSP())
	if err != nil {
		return &harness.Violation{Class: "msp-extract", Site: "mix", Detail: err.Error()}
	}
	minimal, _ := a.spec.qualifiedSets()
	for _, q := range minimal {
		if len(q) < 2 {
			continue
		}
		// every non-trivial assignment of epochs to the members of q (at most 16 tried)
		tried := 0
		for mask := 1; mask < (1<<len(q))-1 && tried < 16; mask++ {
			tried++
			comps := map[sim.ID][]*big.Int{}
			for i, id := range q {
				src := a
				if mask&(1<<i) != 0 {
					src = b
				}
				sh := src.shards[id]
				if sh == nil {
					comps = nil
					break
				}
				comps[id] = shareComponents(sh.Share())
			}
			if comps == nil {
				continue
			}
			x, ok, err := md.reconstruct(q, comps)
			if err != nil || !ok {
				continue
			}
			if x.Cmp(h.facts.secret) == 0 {
				return &harness.Violation{Class: "mixed-epochs-reconstruct", Site: "mix", Detail: fmt.Sprintf("shares of quorum %v taken from epochs %d and %d (mask %b) reconstruct the secret (history %v)", q, a.n, b.n, mask, h.ops)}
			}
			h.probes["mixed_reconstructions_checked"]++
		}
	}
	return nil
}

func (h *histRun[G, S]) checkEpoch(e *epoch[G, S], site string) *harness.Violation {
	kf, v := checkShards(h.kit, e.spec, e.shards, h.w, site, h.probes)
	if v != nil {
		return v
	}
	if h.facts == nil {
		h.facts = kf
		return nil
	}
	if kf.secret.Cmp(h.facts.secret) != 0 {
		return &harness.Violation{Class: "secret-changed", Site: site, Detail: fmt.Sprintf("after %v the shares reconstruct a different secret than at genesis", h.ops)}
	}
	if !bytes.Equal(kf.pkBytes, h.facts.pkBytes) {
		return &harness.Violation{Class: "public-key-changed", Site: site, Detail: fmt.Sprintf("after %v the shards report a different public key than at genesis", h.ops)}
	}
	return nil
}

func runHistoryWith[G algebra.PrimeGroupElement[G, S], S algebra.PrimeFieldElement[S]](rc *harness.RunCtx, kit *groupKit[G, S], fl *signFlavor[G, S]) harness.Outcome {
	if err := selfCheckKit(kit); err != nil {
		return harness.Outcome{HarnessErr: err}
	}
	w := rc.Seed.Sub("workload").Rand()
	h := &histRun[G, S]{rc: rc, kit: kit, fl: fl, w: w, probes: map[string]int{}}
	// genesis
	var spec *acSpec
	for {
		var err error
		spec, err = genAccess(w, 2+w.IntN(3), "")
		if err != nil {
			return harness.Outcome{Violation: &harness.Violation{Class: "policy-refused", Site: "accessstructures", Detail: err.Error()}}
		}
		if spec.expectRefusal == "" && !refusedByDesign(kit, spec) {
			break
		}
	}
	dealt, err := trusteddealer.Deal(kit.group, spec.lib, sim.NewRand(rc.Seed.Sub("rand/dealer")))
	if err != nil {
		return harness.Outcome{Violation: &harness.Violation{Class: "honest-run-error", Site: "trusteddealer", Detail: oneLineErr(err)}}
	}
	g := &epoch[G, S]{n: 0, spec: spec, shards: map[sim.ID]*mpc.BaseShard[G, S]{}, how: "genesis"}
	for id, sh := range dealt.Iter() {
		g.shards[id] = sh
	}
	h.epochs = []*epoch[G, S]{g}
	finish := func(v *harness.Violation) harness.Outcome {
		class := fmt.Sprintf("history group=%s sign=%s ops=%s", kit.name, fl.name, strings.Join(opKinds(h.ops), ","))
		sample := map[string]any{"workload": "history", "group": kit.name, "genesis": spec.desc, "operations": h.ops, "trace_head": head(h.trace, 8)}
		dig := fmt.Sprint(h.ops)
		if h.facts != nil {
			dig += fmt.Sprintf("%x", h.facts.pkBytes)
		}
		return harness.Outcome{Violation: v, Class: class, NonTrivial: h.nontriv || len(h.ops) > 0, Trace: h.trace, Stats: h.stats, Probes: h.probes, Sample: sample, Digest: dig}
	}
	if v := h.checkEpoch(g, "genesis"); v != nil {
		return finish(v)
	}
	nops := 1 + w.IntN(5)
	for k := 0; k < nops; k++ {
		h.opIdx = k + 1
		cur := h.epochs[len(h.epochs)-1]
		minimal, _ := cur.spec.qualifiedSets()
		pickPrev := func(exclude sim.ID) []sim.ID {
			// a qualified set of previous holders (minimal, or minimal plus extras) avoiding `exclude`
			var cands [][]sim.ID
			for _, q := range minimal {
				if !idSet(q)[exclude] {
					cands = append(cands, q)
				}
			}
			if len(cands) == 0 {
				return nil
			}
			q := append([]sim.ID(nil), cands[w.IntN(len(cands))]...)
			for _, id := range cur.spec.ids {
				if id != exclude && !idSet(q)[id] && w.IntN(2) == 0 {
					q = append(q, id)
				}
			}
			return sortedIDs(q)
		}
		switch op := w.IntN(10); {
		case op <= 1: // refresh
			h.ops = append(h.ops, fmt.Sprintf("refresh(epoch %d)", cur.n))
			ne, errsBy, v, herr := h.redistribute(cur, cur.spec.ids, cur.spec, false, 0, "refresh")
			if herr != nil {
				return harness.Outcome{HarnessErr: herr}
			}
			if v != nil {
				return finish(v)
			}
			if len(errsBy) > 0 {
				return finish(&harness.Violation{Class: "honest-run-error", Site: "redistribute/refresh", Detail: fmt.Sprint(errsBy)})
			}
			if v := h.checkEpoch(ne, "after-refresh"); v != nil {
				return finish(v)
			}
			h.epochs = append(h.epochs, ne)
			h.probes["op_refresh"]++
		case op <= 3: // recover a lost share
			lost := cur.spec.ids[w.IntN(len(cur.spec.ids))]
			prev := pickPrev(lost)
			if prev == nil || len(prev) < 2 {
				h.probes["recover_impossible"]++
				continue
			}
			h.ops = append(h.ops, fmt.Sprintf("recover(%d by %v)", lost, prev))
			ne, errsBy, v, herr := h.redistribute(cur, prev, cur.spec, w.IntN(2) == 0, 0, "recover")
			if herr != nil {
				return harness.Outcome{HarnessErr: herr}
			}
			if v != nil {
				return finish(v)
			}
			if len(errsBy) > 0 {
				return finish(&harness.Violation{Class: "honest-run-error", Site: "redistribute/recover", Detail: fmt.Sprint(errsBy)})
			}
			if v := h.checkEpoch(ne, "after-recover"); v != nil {
				return finish(v)
			}
			h.epochs = append(h.epochs, ne)
			h.probes["op_recover"]++
		case op <= 5: // redistribute to another structure / holder set
			var next *acSpec
			sameHolders := w.IntN(3) == 0 // another policy over exactly the same holders
			for tries := 0; tries < 20; tries++ {
				var cand *acSpec
				var err error
				if sameHolders {
					cand, err = genAccess(w, len(cur.spec.ids), "", cur.spec.ids)
					if err == nil && cand.desc == cur.spec.desc {
						continue
					}
				} else {
					cand, err = genAccess(w, 2+w.IntN(3), "")
				}
				if err != nil {
					return finish(&harness.Violation{Class: "policy-refused", Site: "accessstructures", Detail: err.Error()})
				}
				if cand.expectRefusal != "" || refusedByDesign(kit, cand) {
					continue
				}
				// keep some holders: remap a random subset of the new ids onto old holders
				if !sameHolders && w.IntN(3) != 0 {
					cand = remapOnto(w, cand, cur.spec.ids)
				}
				if cand != nil {
					next = cand
					break
				}
			}
			if next == nil {
				continue
			}
			prev := pickPrev(0)
			if len(prev) < 2 {
				continue
			}
			anchor := w.IntN(2) == 0
			h.ops = append(h.ops, fmt.Sprintf("redistribute(%s -> %s by %v anchor=%v)", cur.spec.kind, next.desc, prev, anchor))
			ne, errsBy, v, herr := h.redistribute(cur, prev, next, anchor, 0, "redistribute")
			if herr != nil {
				return harness.Outcome{HarnessErr: herr}
			}
			if v != nil {
				return finish(v)
			}
			if len(errsBy) > 0 {
				return finish(&harness.Violation{Class: "honest-run-error", Site: "redistribute", Detail: fmt.Sprint(errsBy)})
			}
			if v := h.checkEpoch(ne, "after-redistribute"); v != nil {
				return finish(v)
			}
			h.epochs = append(h.epochs, ne)
			h.probes["op_redistribute"]++
			if sameHolders {
				h.probes["redistribute_same_holders_other_policy"]++
			}
			h.probes["to_family_"+next.kind]++
		case op == 6: // sign with the current shards
			q := drawQuorum(w, cur.spec, false, h.probes)
			if q == nil {
				continue
			}
			h.ops = append(h.ops, fmt.Sprintf("sign(epoch %d, %v)", cur.n, q))
			v, herr := h.signWith(cur.shards, q, drawMessage(w), true, "sign-after-"+cur.how)
			if herr != nil {
				return harness.Outcome{HarnessErr: herr}
			}
			if v != nil {
				return finish(v)
			}
			h.probes["op_sign"]++
		case op == 7: // persist + restart
			h.ops = append(h.ops, fmt.Sprintf("persist+restart(epoch %d)", cur.n))
			re, v := persistReload(kit, cur.shards, cur.spec.ids, w, false, "persist", h.probes)
			if v != nil {
				return finish(v)
			}
			cur.shards = re
			if v := h.checkEpoch(cur, "after-restart"); v != nil {
				return finish(v)
			}
			h.probes["op_persist_restart"]++
		case op == 8: // mix epochs of the same structure and holder set
			var other *epoch[G, S]
			for i := len(h.epochs) - 2; i >= 0; i-- {
				if h.epochs[i].spec == cur.spec {
					other = h.epochs[i]
					break
				}
			}
			if other == nil {
				h.probes["mix_no_material"]++
				continue
			}
			h.ops = append(h.ops, fmt.Sprintf("mix(epochs %d,%d)", other.n, cur.n))
			if v := h.mixCheck(cur, other); v != nil {
				return finish(v)
			}
			q := drawQuorum(w, cur.spec, false, h.probes)
			if q != nil && len(q) >= 2 {
				mixed := map[sim.ID]*mpc.BaseShard[G, S]{}
				for id, sh := range cur.shards {
					mixed[id] = sh
				}
				stale := q[w.IntN(len(q))]
				if other.shards[stale] != nil {
					mixed[stale] = other.shards[stale]
					rest := map[sim.ID]bool{}
					for _, id := range q {
						if id != stale {
							rest[id] = true
						}
					}
					essential := !cur.spec.qualified(rest)
					if essential {
						h.probes["mixed_epoch_stale_member_essential"]++
					}
					v, herr := h.signWithStale(mixed, q, drawMessage(w), false, essential, "sign-mixed-epochs")
					if v != nil {
						v.Detail += fmt.Sprintf("; structure %s, stale member %d (from epoch %d, the others from epoch %d), stale member essential=%v", cur.spec.desc, stale, other.n, cur.n, essential)
					}
					if herr != nil {
						return harness.Outcome{HarnessErr: herr}
					}
					if v != nil {
						return finish(v)
					}
				}
			}
			h.probes["op_mix"]++
		default: // an operation cut short by a crash of one party
			victimPool := cur.spec.ids
			victim := victimPool[w.IntN(len(victimPool))]
			before := map[sim.ID][]byte{}
			for id, sh := range cur.shards {
				before[id], _ = serde.MarshalCBOR(sh)
			}
			h.ops = append(h.ops, fmt.Sprintf("abort(refresh, crash of %d)", victim))
			ne, _, v, herr := h.redistribute(cur, cur.spec.ids, cur.spec, false, victim, "abort")
			if herr != nil {
				return harness.Outcome{HarnessErr: herr}
			}
			if v != nil {
				return finish(v)
			}
			// the inputs of a failed run are untouched and still usable
			for id, sh := range cur.shards {
				b, _ := serde.MarshalCBOR(sh)
				if !bytes.Equal(b, before[id]) {
					return finish(&harness.Violation{Class: "inputs-damaged-by-aborted-run", Site: "abort", Detail: fmt.Sprintf("shard of %d changed during an aborted refresh", id)})
				}
			}
			// whoever obtained a new shard obtained a sound one for the same key
			for id, sh := range ne.shards {
				if v := selfConsistent(kit, sh, id, "abort"); v != nil {
					return finish(v)
				}
				if !bytes.Equal(sh.PublicKeyValue().Bytes(), h.facts.pkBytes) {
					return finish(&harness.Violation{Class: "public-key-changed", Site: "abort", Detail: fmt.Sprintf("party %d obtained a shard for a different key from an aborted refresh", id)})
				}
				h.probes["shard_obtained_despite_abort"]++
			}
			if len(ne.shards) == len(cur.spec.ids) {
				// nobody was hurt (the crash came too late): the new epoch is complete and must be sound
				if v := h.checkEpoch(ne, "after-late-abort"); v != nil {
					return finish(v)
				}
			}
			if v := h.checkEpoch(cur, "previous-epoch-after-abort"); v != nil {
				return finish(v)
			}
			h.probes["op_abort"]++
		}
	}
	// closing operation: the current epoch signs under the genesis key
	cur := h.epochs[len(h.epochs)-1]
	h.opIdx = nops + 1
	if q := drawQuorum(w, cur.spec, false, h.probes); q != nil {
		h.ops = append(h.ops, fmt.Sprintf("sign(epoch %d, %v)", cur.n, q))
		v, herr := h.signWith(cur.shards, q, drawMessage(w), true, "final-sign-after-"+cur.how)
		if herr != nil {
			return harness.Outcome{HarnessErr: herr}
		}
		if v != nil {
			return finish(v)
		}
	}
	h.probes[fmt.Sprintf("epochs_%d", len(h.epochs))]++
	return finish(nil)
}

func opKinds(ops []string) []string {
	var out []string
	for _, o := range ops {
		if i := strings.IndexByte(o, '('); i > 0 {
			out = append(out, o[:i])
		}
	}
	return out
}

// remapOnto renames some holders of a freshly generated structure to existing
// holders, so that old and new holder sets overlap. It rebuilds the structure
// by regenerating with a substituted id list (same family, same shape).
func remapOnto(w *rand.Rand, cand *acSpec, old []sim.ID) *acSpec {
	// Rather than rewriting a built structure, generate again over a chosen id
	// set: keep k old holders and n-k new ones (threshold/unanimity only; other
	// families keep their own fresh ids).
	if cand.kind != "threshold" && cand.kind != "unanimity" {
		return cand
	}
	n := len(cand.ids)
	ids := map[sim.ID]bool{}
	perm := w.Perm(len(old))
	keep := 1 + w.IntN(n)
	for _, i := range perm {
		if len(ids) >= keep || len(ids) >= n {
			break
		}
		ids[old[i]] = true
	}
	for _, id := range cand.ids {
		if len(ids) >= n {
			break
		}
		ids[id] = true
	}
	var list []sim.ID
	for id := range ids {
		list = append(list, id)
	}
	list = sortedIDs(list)
	if len(list) < 2 {
		return cand
	}
	if cand.kind == "unanimity" {
		t := len(list)
		s, err := genFixedThreshold(t, list)
		if err != nil || t < 2 {
			return cand
		}
		s.kind = "threshold"
		return s
	}
	t := 2 + w.IntN(len(list)-1)
	s, err := genFixedThreshold(t, list)
	if err != nil {
		return cand
	}
	return s
}

func runHistory(rc *harness.RunCtx, group string) (out harness.Outcome) {
	synctest.Test(rc.T, func(t *testing.T) {
		switch group {
		case "k256":
			out = runHistoryWith(rc, kitK256(), flavorL22BIP340())
		case "p256":
			out = runHistoryWith(rc, kitP256(), flavorL22Vanilla(kitP256(), "sha256", sha256.New, false, false))
		case "ed25519":
			out = runHistoryWith(rc, kitEd25519(), flavorL22Vanilla(kitEd25519(), "sha512", sha512.New, false, true))
		case "k256-ecdsa":
			out = runHistoryWith(rc, kitK256(), flavorDKLs23(kitK256(), ecdsaK256(), "softspoken", "sha256", sha256.New))
		default:
			out = harness.Outcome{HarnessErr: fmt.Errorf("unknown group %q", group)}
		}
	})
	return out
}

func histWorkload(group string, quick, thorough int) harness.Workload {
	return harness.Workload{Name: "history-" + group, Quick: quick, Thorough: thorough, Run: func(rc *harness.RunCtx) harness.Outcome { return runHistory(rc, group) }}
}

// C06Workloads lists the history workloads that decide C06.
func C06Workloads() []harness.Workload {
	return []harness.Workload{
		histWorkload("k256", 20, 2500),
		histWorkload("p256", 8, 800),
		histWorkload("ed25519", 8, 800),
		histWorkload("k256-ecdsa", 2, 120),
	}
}
