package main

// Meta is the static description of a claimed property's check.
type Meta struct {
	Level            string
	Rule             string
	Assumptions      []string
	Real, Stub       []string
	ExpectedProbes   []string
	FineStep         bool
	CrashIsViolation bool
	QuickBudgetS     int
	ThoroughBudgetS  int
}

var commonStub = []string{
	"transport (sim.Net implements network.Delivery: pooled messages, scheduler-chosen hand-over)",
	"clock (testing/synctest fake clock)",
	"random sources (sim.Rand per party, ChaCha8 keyed from VERIF_SEED)",
	"application / orchestrator (the harness plays the caller)",
}

var propMeta = map[string]Meta{
	"C11": {
		Level: "exploration",
		Rule: "Each evaluation is one seeded simulated run (router workload: 2-5 real Routers over the simulated Delivery, 1-3 client goroutines per party, 1-5 planned exchanges over nested namespaces, unique payload per (sender, recipient, full id); echo workload: 3-5 real echo-broadcast participants with one equivocating broadcaster). " +
			"Generated from VERIF_SEED: configuration, delivery policy, enabled fault kinds (swarm), every scheduler decision. Non-trivial = at least one delivery that was not the canonical FIFO choice or at least one injected fault. Distinct = hash of (workload, configuration class, full decision trace).",
		Assumptions: []string{
			"macro-step runs serialise at quiescence: one external event, then the bubble runs until every goroutine is durably blocked; interleavings inside pkg/network critical sections are explored only by the fine-step workload",
			"each correlation identifier is used for one exchange and far fewer than 10000 undelivered messages are outstanding (preconditions of the property)",
			"the reference mailbox model is written from the Router documentation; where the property is silent (receive invoked on an already failed router, two senders both equivocating) either documented outcome is accepted",
		},
		Real: []string{"pkg/network Router, routerCore reader goroutine, mailboxes, Namespaced views, SendTo/ReceiveFrom, Close", "pkg/network/echo rounds and runner", "pkg/network/exchange helpers", "pkg/base/serde (CBOR envelope)"},
		Stub: commonStub,
		ExpectedProbes: []string{"dup", "redeliver", "inject", "conflict", "cancel", "close", "terr", "recv_invoked_before_arrival", "recv_invoked_when_ready",
			"duplicate_after_consumption_buffered", "conflict_poisoned_receive", "cancel_with_partial_mailbox", "retry_after_cancel_completed", "inject_nonmember", "inject_other_namespace", "inject_nonparticipant", "inject_unknown_cid", "inject_forged_envelope_origin", "buffer_below", "buffer_drift", "buffer_dups", "buffer_above",
			"fine_task_steps", "fully_quiescent_states", "histories_checked"},
		FineStep:     true,
		QuickBudgetS: 240, ThoroughBudgetS: 2400,
	},
}

func init() {
	propMeta["C10"] = Meta{
		Level: "exploration",
		Rule: "Each evaluation is one seeded simulated run of the real session-setup runner (2-6 parties, sparse/large/unsorted ids, optionally two concurrent sessions on one Delivery) over the simulated network with reordering, duplication, redelivery and foreign injection, followed by the symmetry/separation/zero-sum oracle over every sub-quorum (all subsets for n<=5); the adversarial workload alters one leaf of one setup message of one corrupt party. Non-trivial = at least one non-FIFO delivery or injected fault. Distinct = hash of (workload, configuration class, decision trace, fault cell).",
		Assumptions: []string{"every broadcast reaches all recipients identically (enforced by the real echo broadcast in runner mode)", "SHA-3 / cSHAKE outputs of distinct inputs are distinct (collision resistance) when seeds are compared for inequality"},
		Real: []string{"pkg/mpc/session (participant, context, runner)", "pkg/mpc/zero/przs", "pkg/commitments/hashcom", "pkg/network router, echo broadcast, exchange", "pkg/transcripts/hagrid"},
		Stub: commonStub, ExpectedProbes: []string{"dup", "redeliver", "inject", "second_session_compared", "subquorums_checked"},
		QuickBudgetS: 120, ThoroughBudgetS: 1200,
	}
	propMeta["C03"] = Meta{
		Level: "exploration",
		Rule: "Each evaluation is one seeded simulated key generation: a generated access structure (threshold, unanimity, CNF, hierarchical, boolean/threshold tree; 2-6 holders; sparse/large ids) built twice (library object and independent reference predicate), a group, a protocol (Gennaro with one of three NIZK compilers, Canetti, trusted dealer), real session setup + DKG runners over the simulated network with benign faults, then the reference oracle over every subset of holders (n<=5), and persist / crash / reload on the simulated disk. Non-trivial = at least one non-FIFO delivery or injected fault (dealer runs: always counted, they have no schedule). Distinct = hash of (workload, configuration class, decision trace).",
		Assumptions: []string{"reference arithmetic (math/big) for secp256k1, P-256, edwards25519, Pallas, Vesta and BLS12-381 G1 is independent of the library; for BLS12-381 G2 the public-key comparison uses the library's scalar multiplication (semi-independent)", "policies with a qualified singleton and CNF policies with a holder contained in every maximal unqualified set are not generated here (the latter is exercised by a dedicated workload)"},
		Real: []string{"pkg/mpc/dkg/gennaro, canetti, trusteddealer", "pkg/mpc/signatures/ecdsa/lindell17/keygen/trusted_dealer and keygen/dkg, lindell17 shard encoding, pkg/encryption/paillier (decryption used by the cross-check)", "pkg/mpc/session", "pkg/mpc/sharing (kw, msp, feldman, pedersen, access structures)", "pkg/mpc base shard encoding", "pkg/proofs (okamoto, batch schnorr, compilers)", "pkg/network router, echo, exchange", "curves and fields"},
		Stub: append(append([]string{}, commonStub...), "disk (sim.Disk: write/sync/crash, lost/torn/bit-flipped images)"),
		ExpectedProbes: []string{"dup", "redeliver", "inject", "multi_row_holder", "non_ideal_structure", "reloaded", "damaged_image_rejected", "independent_runs_compared", "family_threshold", "family_unanimity", "family_cnf", "family_hierarchical", "family_boolexpr"},
		QuickBudgetS: 240, ThoroughBudgetS: 1800,
	}
}

func init() {
	propMeta["C01"] = Meta{
		Level: "exploration",
		Rule: "Each evaluation is one seeded simulated signing run: generated access structure (five families incl. non-ideal ones, 2-5 holders, sparse/large ids) with its independent reference predicate, key material from the trusted dealer or from a Gennaro/Canetti DKG run in the same simulated cluster, a qualified quorum drawn from the reference evaluator (minimal, minimal+extra, all holders), a message (empty, 1 byte, 32 bytes, 1 KiB, text), real session setup (a third of the runs: contexts derived with SubContext from one parent session, per party in its own order) + real signing runner of the chosen protocol over the simulated network with reordering, duplication, redelivery and foreign injection, 1-2 concurrent signing sessions per key; every quorum member and one outsider aggregate. Non-trivial = at least one non-FIFO delivery or injected fault. Distinct = hash of (workload, configuration class, decision trace).",
		Assumptions: []string{"independent verifiers: ECDSA and BIP-340 and plain Schnorr written from their specifications over /verif/ref curve arithmetic, plus crypto/ecdsa (P-256) and crypto/ed25519 where wire-compatible; BLS and Mina use the library verifier plus an omniscient algebraic check (semi-independent)", "message hashing uses the Go standard library hash functions"},
		Real: []string{"pkg/mpc/signatures: schnorr/lindell22 (BIP-340, plain Schnorr, Mina), ecdsa/dkls23 (bbot, softspoken), ecdsa/lindell17 (signing, trusted dealer, DKG), ecdsa/cggmp21 (signing, trusted dealer; auxiliary DKG in the thorough tier), bls/boldyreva02 (short and long keys, three rogue-key schemes) as listed in per_workload", "pkg/encryption/paillier, pkg/proofs/paillier (lp, lpdl, range) through Lindell17", "pkg/mpc/session, dkg, sharing, zero", "pkg/ot, pkg/mpc/rvole", "pkg/network router, echo, exchange", "pkg/signatures verifiers", "curves, fields, proofs, commitments"},
		Stub: commonStub, ExpectedProbes: []string{"dup", "redeliver", "inject", "quorum_minimal", "quorum_non_minimal", "quorum_all_holders", "non_cosigning_aggregator", "concurrent_signing_sessions", "non_ideal_structure", "keysource_gennaro", "keysource_canetti", "keysource_dealer", "independent_verifications", "semi_independent_verifications", "omniscient_checks", "signing_context_from_subcontext", "lindell17_dkg_completed", "cggmp21_dkg_completed", "round_by_round_runs"},
		QuickBudgetS: 300, ThoroughBudgetS: 2700,
	}
}

func init() {
	propMeta["C04"] = Meta{
		Level: "fault_enumeration",
		Rule: "The fault space is the finite set of cells (protocol scenario in {session setup, Gennaro (threshold and a non-ideal CNF structure), Canetti, Lindell22/BIP-340, DKLs23 x2, agree-on-random, redistribution with/without anchor and to a disjoint set of newcomers, Lindell17 signing x2, Lindell17 DKG (3-party variant thorough only), Boldyreva x2}, corrupt party position, message type, recipient for unicasts, leaf of the CBOR encoding at normalised path (first and last instance of repeated positions), operator in {bit flip low/high, replace by the value at the same position of another sender's / the parallel session's message, swap two leaves (two instances of a repeated position, or two sibling fields of the same kind), increment, truncate, extend, drop, replay of another sender's / the parallel session's / another recipient's whole message, replay of the message the corrupt party itself would have sent with other coins, with one single draw changed, or for another input}). Cells are derived from the recorded messages of an honest inventory run with the same seed; each evaluation re-runs the scenario (real runners, real echo broadcast, a parallel untouched session) with exactly one cell applied on the corrupt party's outgoing link, a broadcast being altered identically in all copies. The quick tier visits every cell of the cheap scenarios (agree-on-random, redistribution x3, Lindell17 signing, Boldyreva) and an evenly spread subset of the others, the thorough tier every cell (scenarios whose single run costs tens of seconds use a reduced operator set). Non-trivial = the tamper changed the bytes on the wire. Distinct = distinct cell labels.",
		Assumptions: []string{
			"binding table: every leaf is treated as bound unless listed as free with a written justification (session round-1 commitment key); operators that only append surplus data are accepted when every party ends with exactly the outputs of the unaltered run (decoding strictness is C12's subject)",
			"the corrupt party runs honest code; its deviation is applied on the wire, so the deviating party's own later state is consistent with the untampered message",
			"one fault per run; n=3 (two-party quorums for DKLs23)",
		},
		Real: []string{"pkg/mpc/session, dkg/gennaro, dkg/canetti, signatures/schnorr/lindell22, signatures/ecdsa/dkls23 (bbot, softspoken) incl. pkg/ot and pkg/mpc/rvole, aggregators", "pkg/mpc/aor, pkg/mpc/redistribute (incl. pkg/mpc/zero/hjky), signatures/ecdsa/lindell17 (signing, keygen/dkg, keygen/trusted_dealer) incl. pkg/encryption/paillier and pkg/proofs/paillier, signatures/bls/boldyreva02 (cosigner, aggregator)", "pkg/network router, echo broadcast, exchange", "pkg/base/serde decoders, message Validate methods, proofs, commitments"},
		Stub: append(append([]string{}, commonStub...), "wire adversary (checks/adversary.go) on one party's outgoing link", "trusted dealer for signing key material"),
		ExpectedProbes: []string{"detected", "blamed_correctly", "op_flip", "op_set", "op_replaymsg", "op_drop", "op_trunc", "op_extend", "class_bound", "class_free"},
		CrashIsViolation: true,
		QuickBudgetS:     900, ThoroughBudgetS: 18000,
	}
}

func init() {
	propMeta["C09"] = Meta{
		Level: "exploration",
		Rule: "Each evaluation is one seeded two-party run of real OT / multiplication code in lock-step (real two-party session setup round by round, every message CBOR-encoded, optionally altered, and decoded on each hop): batch size, block length, choice-bit pattern (all-zero, all-one, alternating, random), curve, multiplication inputs (0, 1, q-1, random) are drawn from the seed; the honest pass is judged by the correlation oracle (reference field arithmetic for c+d=a*b); three of four evaluations add a second pass with one alteration (bit flip, swap of two leaves, value of the same position from an independent run, truncation) of one leaf of one message, biased to the check-feeding messages (extension round 1; multiplier last message). Non-trivial: every evaluation (each has a distinct generated configuration and, mostly, a fault). Distinct = hash of (workload, configuration, alteration).",
		Assumptions: []string{"strict ping-pong protocols: no schedule to vary, so the simulated faults are wire alterations only", "alterations of messages that do not feed the named consistency checks are judged for safety only (no panic); vacuous alterations (decode to the identical message) are not required to be rejected"},
		Real: []string{"pkg/ot/base/ecbbot, pkg/ot/base/vsot, pkg/ot/extension/softspoken", "pkg/mpc/rvole/bbot, pkg/mpc/rvole/softspoken", "pkg/mpc/session participant (round-by-round)", "pkg/base/serde"},
		Stub: []string{"transport (lock-step hop: encode, alter, decode)", "random sources (sim.Rand)", "orchestrator (harness)"},
		ExpectedProbes: []string{"honest_completed", "alteration_rejected_by_other_side", "choices_all-zero", "choices_all-one", "choices_alternating", "choices_random", "op_flip", "op_set", "op_swapleaf", "safety_only_alteration", "rejected_call_then_retry"},
		QuickBudgetS: 240, ThoroughBudgetS: 1500,
	}
}

func init() {
	propMeta["C06"] = Meta{
		Level: "exploration",
		Rule: "Each evaluation is one seeded operation history on one key: genesis by the trusted dealer over a generated access structure, then 1-5 operations drawn from {refresh, recover a lost share (with or without trusted anchor), redistribute to another generated structure / holder set driven by a random qualified set of previous holders (with or without anchor), sign with a qualified quorum of the current epoch, persist+crash+reload, mix shares of two epochs of the same structure (reference reconstruction and a signing attempt), refresh cut short by a crash of one party at a scheduler-chosen point}, and a closing signature. Every protocol step runs through the real session + redistribution / signing runners over the simulated network with benign faults. Reference model: (x, Y) reconstructed once at genesis by reference linear algebra never change. Non-trivial = at least one operation. Distinct = hash of (workload, operation kinds, decision trace).",
		Assumptions: []string{"erasure of old shares and orchestration across parties after an abort are the caller's job (documented); after an aborted run only the integrity of inputs and the soundness of any shard that was nevertheless obtained are required", "epoch mixing is meaningful only between epochs of the same structure and holder set"},
		Real: []string{"pkg/mpc/redistribute, pkg/mpc/zero/hjky", "pkg/mpc/session", "pkg/mpc/signatures/schnorr/lindell22 (BIP-340, Schnorr), dkls23-softspoken", "pkg/mpc/dkg/trusteddealer", "pkg/mpc/sharing", "pkg/network router, echo, exchange"},
		Stub: append(append([]string{}, commonStub...), "disk (sim.Disk)"),
		ExpectedProbes: []string{"op_refresh", "op_recover", "op_redistribute", "op_sign", "op_persist_restart", "op_mix", "op_abort", "aborted_operations", "mixed_epoch_signing_refused", "mixed_reconstructions_checked", "signatures_under_genesis_key", "dup", "redeliver", "inject"},
		QuickBudgetS: 300, ThoroughBudgetS: 2400,
	}
}

func init() {
	propMeta["C07"] = Meta{
		Level: "exploration",
		Rule: "Each evaluation is one paired replay: a protocol scenario (session setup, Gennaro over a threshold structure and over a four-holder CNF structure whose MSP is wider than holders+1, Canetti, Lindell22/BIP-340 signing, DKLs23 with either multiplier, agree-on-random, redistribution, Lindell17 signing; real runners, FIFO schedule, parallel second session) is executed twice or more from the same seed with exactly one controlled difference on the randomness seam of one party position: (sensitivity) another protocol-stage stream for that party, the session stage unchanged; (hidden-source) the same party streams and another process-global crypto/rand; (short-read) the same bytes handed out in reads of 1-5 bytes; (reader-failure) the k-th Read call fails, k spread over the calls of the base run; (cross-session) the two sessions of one run compared; (cross-recipient) the unicasts of one round to different recipients compared. The Lindell17 trusted dealer is paired the same way on the dealt shards (ECDSA shares and Paillier moduli). Non-trivial: every pair. Distinct = scenario x sub-check x party position.",
		Assumptions: []string{"a byte-string leaf of at least 16 bytes in a message of the varied party must change when that party's stream changes, unless it is listed as derived with a justification (session id echoed by Canetti, identity entry of a zero-sharing vector, DKLs23 public-key share); in the cross-recipient sub-check the coordinates of a CNF (replicated) sub-share legitimately reach several recipients", "secrets that never influence a message or output (e.g. an unused mask) are invisible to this check"},
		Real: []string{"pkg/mpc/session, dkg/gennaro, dkg/canetti, signatures/schnorr/lindell22, signatures/ecdsa/dkls23 (bbot, softspoken), pkg/ot, pkg/mpc/rvole, commitments, proofs", "signatures/ecdsa/lindell17/keygen/trusted_dealer, pkg/encryption/paillier key generation, pkg/base/nt prime generation"},
		Stub: append(append([]string{}, commonStub...), "process-global crypto/rand (testing/cryptotest.SetGlobalRandom)"),
		ExpectedProbes: []string{"random_leaves_changed", "joint_value_changed", "hidden_source_pairs_identical", "short_read_pairs_identical", "reader_failures_injected", "cross_session_values_distinct"},
		QuickBudgetS: 300, ThoroughBudgetS: 1800,
	}
}
