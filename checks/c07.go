package checks

import (
	"bytes"
	"crypto/sha256"
	"encoding/hex"
	"fmt"
	"sort"
	"strings"
	"sync"
	"testing"
	"testing/synctest"

	"github.com/bronlabs/bron-crypto/pkg/base/curves/k256"
	l17dealer "github.com/bronlabs/bron-crypto/pkg/mpc/signatures/ecdsa/lindell17/keygen/trusted_dealer"

	"verif/cbor"
	"verif/harness"
	"verif/sim"
)

// derivedLeaves lists the leaves (scenario | stripped cid | normalised path)
// of a party's protocol-stage messages that legitimately do NOT depend on that
// party's protocol-stage random stream, each with its justification. Every
// other byte-string leaf of at least 16 bytes must change when the stream changes.
var derivedLeaves = map[string]string{
	"canetti|dkg/BRON_CRYPTO_DKG_CANETTI_R2BROADCAST:|.Message.SessionID":                                                 "the session identifier is fixed by the (unchanged) session-setup stage; it is echoed in the commitment message, not sampled",
	"lindell22-bip340|sign/Lindell22SigningRound1BROADCAST:|.zeroR1.verificationVector.verification_vector.data[0].compressedBytes": "entry 0 of the verification vector of a sharing of zero is the identity by construction (exact path: only entry 0)",
	"dkls23-bbot|sign/DKLS23SignBBOTRound3BROADCAST:|.pk.compressedBytes":  "the public key share is [additive share + zero share]G: derived from the long-term share and the session seeds, not sampled",
	"dkls23-softspoken|sign/DKLS23SignRound4BROADCAST:|.pk.compressedBytes": "the public key share is [additive share + zero share]G: derived from the long-term share and the session seeds, not sampled",
	"redistribute|redist/RedistributeRound1BROADCAST:|.ZeroR1.verificationVector.verification_vector.data[0].compressedBytes": "entry 0 of the verification vector of a sharing of zero is the identity by construction (exact path: only entry 0)",
	"redistribute|redist/RedistributeRound2BROADCAST:|.ZeroVerificationVector.verification_vector.data[0].compressedBytes":    "entry 0 of the aggregated zero-sharing verification vector is the identity by construction (exact path: only entry 0)",
	"redistribute|redist/RedistributeRound2BROADCAST:|.PrevVerificationVector.verification_vector.data[*].compressedBytes":    "the verification vector of the existing sharing is long-term public data that every previous holder republishes",
	"redistribute|redist/RedistributeRound2BROADCAST:|.PrevMSP.Matrix.data[*].fieldBytes":                                    "the matrix of the existing sharing's MSP is long-term public data",
}

// derivedPatterns: the same, for encodings that repeat one public value at several
// paths (scenario, message, substring of the normalised path).
var derivedPatterns = []struct{ scenario, cid, part, why string }{
	{"lindell17-sign", "sign/Lindell17SignRound4UNICAST:", ".modulus.", "a Paillier ciphertext is encoded together with the modulus of its group (N, N^2: the primary's long-term public key); only the value part is random"},
	{"lindell17-sign", "sign/Lindell17SignRound4UNICAST:", ".n.natPlus.", "a Paillier ciphertext is encoded together with the modulus of its group (N, N^2: the primary's long-term public key); only the value part is random"},
}

// replicatedLeaves: unicast leaves that legitimately carry the same value to
// several recipients (cross-recipient sub-check only; they must still change
// with the sender's stream). scenario, message, prefix of the path, reason.
var replicatedLeaves = []struct{ scenario, cid, prefix, why string }{
	{"gennaro-cnf-wide", "dkg/GennaroDKGRound1UNICAST:", ".share.", "CNF (replicated) secret sharing: the sub-share of a clause, and its Pedersen blinding, is one draw that goes to every holder outside the clause's unqualified set, so two recipients outside the same set receive the same coordinate by construction"},
}

func isReplicatedLeaf(scName, cid, path string) bool {
	for _, p := range replicatedLeaves {
		if p.scenario == scName && p.cid == cid && strings.HasPrefix(path, p.prefix) {
			return true
		}
	}
	return false
}

func isDerivedLeaf(scName, cid, path string) bool {
	if _, ok := derivedLeaves[fmt.Sprintf("%s|%s|%s", scName, cid, cbor.NormPath(path))]; ok {
		return true
	}
	if _, ok := derivedLeaves[fmt.Sprintf("%s|%s|%s", scName, cid, path)]; ok {
		return true
	}
	for _, p := range derivedPatterns {
		if p.scenario == scName && p.cid == cid && strings.Contains(cbor.NormPath(path), p.part) {
			return true
		}
	}
	return false
}

type c07Run struct {
	res c04Result
	adv *adversary
}

func c07Exec(rc *harness.RunCtx, sc *c04Scenario, params map[string]string) c07Run {
	rc2 := &harness.RunCtx{T: rc.T, Property: rc.Property, Workload: rc.Workload, Tier: rc.Tier, Index: rc.Index, Seed: rc.Seed, Replay: rc.Replay, Params: params, Aux: map[string]any{}, AuxMu: &sync.Mutex{}}
	adv := newAdversary(0, nil)
	var res c04Result
	synctest.Test(rc.T, func(t *testing.T) {
		// every execution of a pair starts from a defined process-global source;
		// hidden-source pairs differ in exactly that source
		g := params["global_rand"]
		if g == "" {
			g = "default"
		}
		setGlobalRand(rc2.T, g)
		res = sc.run(rc2, adv)
	})
	res.sendOrder = append([]wireMsg(nil), adv.Log...)
	res.log = adv.Log
	sort.SliceStable(res.log, func(i, j int) bool {
		a, b := res.log[i], res.log[j]
		if a.CID != b.CID {
			return a.CID < b.CID
		}
		if a.From != b.From {
			return a.From < b.From
		}
		return a.To < b.To
	})
	if res.probes == nil {
		res.probes = map[string]int{}
	}
	for k, v := range rc2.Aux {
		if r, ok := v.(*sim.Rand); ok {
			res.probes["calls:"+k] = r.Calls
		}
	}
	return c07Run{res: res, adv: adv}
}

func allHonestOK(r c04Result) error {
	if r.harnessErr != nil {
		return r.harnessErr
	}
	for id, e := range r.ends {
		if !e.done || e.err != nil || e.panic != nil {
			return fmt.Errorf("party %d did not complete: done=%v err=%v panic=%v", id, e.done, e.err, e.panic)
		}
	}
	return nil
}

func logsEqual(a, b []wireMsg) (bool, string) {
	key := func(w wireMsg) string { return fmt.Sprintf("%d|%s|%d", w.From, w.CID, w.To) }
	ma := map[string][]byte{}
	for _, w := range a {
		ma[key(w)] = w.Body
	}
	if len(a) != len(b) {
		return false, fmt.Sprintf("%d vs %d messages", len(a), len(b))
	}
	for _, w := range b {
		if !bytes.Equal(ma[key(w)], w.Body) {
			return false, "message " + key(w)
		}
	}
	return true, ""
}

// RunC07 is one paired-replay evaluation: scenario x party position x sub-check.
func RunC07(rc *harness.RunCtx) harness.Outcome {
	scName, sub := rc.Params["scenario"], rc.Params["sub"]
	mk, ok := c04Scenarios[scName]
	if !ok {
		return harness.Outcome{HarnessErr: fmt.Errorf("unknown scenario %q", scName)}
	}
	sc := mk()
	stage := "A/proto"
	if scName == "session" {
		stage = "A/sess"
	}
	probes := map[string]int{}
	cellName := fmt.Sprintf("%s|%s|p%s", scName, sub, rc.Params["pos"])
	out := harness.Outcome{Class: scName + " " + sub, NonTrivial: true, Probes: probes, Params: rc.Params, Cells: []string{cellName}, Trace: []string{cellName}}
	fail := func(class, site, f string, a ...any) harness.Outcome {
		out.Violation = &harness.Violation{Class: class, Site: site, Detail: fmt.Sprintf(f, a...)}
		return out
	}
	base := c07Exec(rc, sc, map[string]string{"sched": "fifo"})
	if err := allHonestOK(base.res); err != nil {
		return harness.Outcome{HarnessErr: fmt.Errorf("base run: %w", err)}
	}
	// the party whose stream is varied
	var parties []sim.ID
	for id := range base.res.ends {
		parties = append(parties, id)
	}
	parties = sortedIDs(parties)
	var pos int
	fmt.Sscan(rc.Params["pos"], &pos)
	i := parties[pos%len(parties)]
	me := fmt.Sprintf("%d|%s", i, stage)
	out.Sample = map[string]any{"workload": "paired-replay", "scenario": scName, "sub_check": sub, "varied_party": i, "stream": stage, "messages_recorded": len(base.res.log)}

	switch sub {
	case "sensitivity":
		alt := c07Exec(rc, sc, map[string]string{"sched": "fifo", "alt": me + "|x"})
		if err := allHonestOK(alt.res); err != nil {
			return fail("run-fails-with-other-stream", scName, "with another random stream for party %d the honest run fails: %v", i, err)
		}
		// self-check: the first protocol message of every other party is unchanged
		first := map[sim.ID]string{}
		for _, w := range base.res.sendOrder { // per sender, the recording order is its own program order
			if strings.HasPrefix(w.CID, "A-") && inOnly(sc, w.CID) {
				if _, ok := first[w.From]; !ok {
					first[w.From] = w.CID
				}
			}
		}
		am := map[string][]byte{}
		for _, w := range alt.res.log {
			am[fmt.Sprintf("%d|%s|%d", w.From, w.CID, w.To)] = w.Body
		}
		for _, w := range base.res.log {
			if w.From != i && w.CID == first[w.From] && w.CID == first[i] {
				if !bytes.Equal(am[fmt.Sprintf("%d|%s|%d", w.From, w.CID, w.To)], w.Body) {
					return harness.Outcome{HarnessErr: fmt.Errorf("self-check: first-round message of %d changed although only party %d's stream was varied", w.From, i)}
				}
			}
		}
		// every random leaf of party i's protocol-stage messages differs
		for _, w := range base.res.log {
			if w.From != i || !strings.HasPrefix(w.CID, "A-") || !inOnly(sc, w.CID) || strings.HasPrefix(stripNS(w.CID), "agg/") {
				continue
			}
			ob, ok := am[fmt.Sprintf("%d|%s|%d", w.From, w.CID, w.To)]
			if !ok {
				return fail("message-missing", scName, "party %d did not send %s in the paired run", i, w.CID)
			}
			ta, e1 := cbor.ParseDeep(w.Body)
			tb, e2 := cbor.ParseDeep(ob)
			if e1 != nil || e2 != nil {
				continue
			}
			for _, l := range ta.Leaves() {
				if l.Node.Major != 2 || len(l.Node.Bytes) < 16 {
					continue
				}
				o, ok := tb.Find(l.Path)
				if !ok {
					continue
				}
				key := fmt.Sprintf("%s|%s|%s", scName, stripNS(w.CID), cbor.NormPath(l.Path))
				exact := fmt.Sprintf("%s|%s|%s", scName, stripNS(w.CID), l.Path)
				if bytes.Equal(o.Node.Bytes, l.Node.Bytes) {
					_ = exact
					if isDerivedLeaf(scName, stripNS(w.CID), l.Path) {
						probes["derived_leaf_unchanged"]++
						continue
					}
					return fail("randomised-value-independent-of-own-stream", key, "party %d's %s leaf %s is identical (%x...) in two runs that differ only in that party's random stream", i, stripNS(w.CID), l.Path, l.Node.Bytes[:8])
				}
				probes["random_leaves_changed"]++
			}
		}
		if base.res.joint == "" || base.res.joint == alt.res.joint {
			return fail("joint-value-independent-of-party-stream", scName+"|joint", "the joint value (%s) is the same in two runs that differ only in party %d's random stream", base.res.joint, i)
		}
		probes["joint_value_changed"]++
		if ja, ok := base.res.jointBy[i]; ok {
			jb := alt.res.jointBy[i]
			da, _ := hex.DecodeString(ja)
			db, _ := hex.DecodeString(jb)
			if len(da) == 0 || len(da) != len(db) {
				return harness.Outcome{HarnessErr: fmt.Errorf("derived joint value of party %d missing in one run of the pair", i)}
			}
			for o := 0; o < len(da); o += 8 {
				e := min(o+8, len(da))
				if bytes.Equal(da[o:e], db[o:e]) {
					return fail("derived-joint-value-independent-of-party-stream", scName+"|derived", "bytes [%d,%d) of the sub-context pairwise seed derived from the session (%x) are identical in two runs that differ only in party %d's random stream", o, e, da[o:e], i)
				}
			}
			probes["derived_joint_value_changed"]++
		}
		if sc.jointUniform {
			ja, e1 := hex.DecodeString(base.res.joint)
			jb, e2 := hex.DecodeString(alt.res.joint)
			if e1 == nil && e2 == nil && len(ja) == len(jb) {
				for o := 0; o < len(ja); o += 8 {
					e := min(o+8, len(ja))
					if e-o >= 5 && bytes.Equal(ja[o:e], jb[o:e]) {
						return fail("joint-value-partly-independent-of-party-stream", scName+"|joint", "bytes [%d,%d) of the joint random value (%d bytes) are identical (%x) in two runs that differ only in party %d's random stream", o, e, len(ja), ja[o:e], i)
					}
				}
				probes["joint_value_windows_changed"]++
			}
		}
	case "hidden-source":
		alt := c07Exec(rc, sc, map[string]string{"sched": "fifo", "global_rand": "other"})
		if err := allHonestOK(alt.res); err != nil {
			return fail("run-fails-with-other-global-source", scName, "%v", err)
		}
		if eq, where := logsEqual(base.res.log, alt.res.log); !eq {
			return fail("depends-on-process-global-randomness", scName, "identical party streams but a different process-global random source change the run (%s)", where)
		}
		for id, d := range base.res.digest {
			if alt.res.digest[id] != d {
				return fail("depends-on-process-global-randomness", scName, "output of party %d depends on the process-global random source", id)
			}
		}
		probes["hidden_source_pairs_identical"]++
	case "short-read":
		alt := c07Exec(rc, sc, map[string]string{"sched": "fifo", "short": me})
		if err := allHonestOK(alt.res); err != nil {
			return fail("short-read-breaks-run", scName, "a reader that returns short reads (legal io.Reader behaviour) makes the run fail: %v", err)
		}
		if eq, where := logsEqual(base.res.log, alt.res.log); !eq {
			return fail("short-read-changes-messages", scName, "the same random bytes handed out in short reads change the run (%s): some secret is read with a bare Read", where)
		}
		probes["short_read_pairs_identical"]++
	case "reader-failure":
		calls := base.res.probes["calls:rand:"+me]
		if calls == 0 {
			probes["no_reads_to_fail"]++
			return out
		}
		// fail the k-th call for up to 6 values of k spread over the run
		ks := map[int]bool{1: true, calls: true}
		for j := 1; j <= 4; j++ {
			ks[1+j*(calls-1)/5] = true
		}
		var klist []int
		for k := range ks {
			klist = append(klist, k)
		}
		sort.Ints(klist)
		for _, k := range klist {
			alt := c07Exec(rc, sc, map[string]string{"sched": "fifo", "failat": fmt.Sprintf("%s|%d", me, k)})
			if alt.res.harnessErr != nil {
				return harness.Outcome{HarnessErr: alt.res.harnessErr}
			}
			for id, e := range alt.res.ends {
				if e.panic != nil {
					return fail("panic-on-reader-failure", scName, "party %d panicked when the random source of %d failed at call %d: %v", id, i, k, e.panic)
				}
			}
			e := alt.res.ends[i]
			if e.done && e.err == nil {
				return fail("reader-error-ignored", scName, "party %d completed successfully although its random source failed at call %d of %d", i, k, calls)
			}
			probes["reader_failures_injected"]++
		}
	case "cross-session":
		// sessions A and B use different streams: no first-round random value may repeat
		bm := map[string][]byte{}
		for _, w := range base.res.log {
			if w.From == i && strings.HasPrefix(w.CID, "B-") {
				bm[fmt.Sprintf("%s|%d", stripNS(w.CID), w.To)] = w.Body
			}
		}
		for _, w := range base.res.log {
			if w.From != i || !strings.HasPrefix(w.CID, "A-") || !inOnly(sc, w.CID) || strings.HasPrefix(stripNS(w.CID), "agg/") {
				continue
			}
			ob, ok := bm[fmt.Sprintf("%s|%d", stripNS(w.CID), w.To)]
			if !ok {
				continue
			}
			ta, e1 := cbor.ParseDeep(w.Body)
			tb, e2 := cbor.ParseDeep(ob)
			if e1 != nil || e2 != nil {
				continue
			}
			for _, l := range ta.Leaves() {
				if l.Node.Major != 2 || len(l.Node.Bytes) < 16 {
					continue
				}
				o, ok := tb.Find(l.Path)
				if !ok || !bytes.Equal(o.Node.Bytes, l.Node.Bytes) {
					probes["cross_session_values_distinct"]++
					continue
				}
				key := fmt.Sprintf("%s|%s|%s", scName, stripNS(w.CID), cbor.NormPath(l.Path))
				if scName == "gennaro" || scName == "gennaro-cnf-wide" || scName == "canetti" || scName == "session" {
					return fail("value-repeats-across-sessions", key, "party %d sent the same value at %s in two sessions with different random streams", i, l.Path)
				}
				if isDerivedLeaf(scName, stripNS(w.CID), l.Path) {
					continue
				}
				// signing sessions on the same key: only long-term public data may repeat
				return fail("value-repeats-across-sessions", key, "party %d sent the same value at %s in two signing sessions on the same key with different random streams", i, l.Path)
			}
		}
	case "cross-recipient":
		// what a party sends privately to different recipients in one round are separate
		// draws: no random leaf of a unicast may be the same for two recipients
		byCID := map[string][]wireMsg{}
		for _, w := range base.res.log {
			if w.From == i && !w.Broadcast && strings.HasPrefix(w.CID, "A-") && inOnly(sc, w.CID) && !strings.HasPrefix(stripNS(w.CID), "agg/") {
				byCID[w.CID] = append(byCID[w.CID], w)
			}
		}
		for cid, ws := range byCID {
			for a := 0; a < len(ws); a++ {
				for b := a + 1; b < len(ws); b++ {
					ta, e1 := cbor.ParseDeep(ws[a].Body)
					tb, e2 := cbor.ParseDeep(ws[b].Body)
					if e1 != nil || e2 != nil {
						continue
					}
					for _, l := range ta.Leaves() {
						if l.Node.Major != 2 || len(l.Node.Bytes) < 16 {
							continue
						}
						o, ok := tb.Find(l.Path)
						if !ok || !bytes.Equal(o.Node.Bytes, l.Node.Bytes) {
							probes["cross_recipient_values_distinct"]++
							continue
						}
						if isDerivedLeaf(scName, stripNS(cid), l.Path) {
							continue
						}
						if isReplicatedLeaf(scName, stripNS(cid), l.Path) {
							probes["cross_recipient_replicated_by_construction"]++
							continue
						}
						key := fmt.Sprintf("%s|%s|%s", scName, stripNS(cid), cbor.NormPath(l.Path))
						return fail("value-repeats-across-recipients", key, "party %d sent the same value (%x...) at %s to recipients %d and %d in one round", i, l.Node.Bytes[:8], l.Path, ws[a].To, ws[b].To)
					}
				}
			}
		}
	default:
		return harness.Outcome{HarnessErr: fmt.Errorf("unknown sub-check %q", sub)}
	}
	return out
}

func inOnly(sc *c04Scenario, cid string) bool {
	for _, p := range sc.only {
		if strings.HasPrefix(stripNS(cid), p) {
			return true
		}
	}
	return false
}

var c07Subs = []string{"sensitivity", "hidden-source", "short-read", "reader-failure", "cross-session", "cross-recipient"}

func c07Workload(scName string, heavy bool) harness.Workload {
	return harness.Workload{Name: "paired-" + scName, Run: RunC07,
		EnumerateT: func(t *testing.T, tier string, seedInt int64, _ sim.Seed) ([]map[string]string, error) {
			var cells []map[string]string
			positions := []string{"0", "1", "2"}
			if sc := c04Scenarios[scName](); sc.c07Pos != nil {
				positions = sc.c07Pos
			}
			for _, sub := range c07Subs {
				for pi, pos := range positions {
					if tier != "thorough" && (heavy && pi > 0 || !heavy && pi > 1) {
						continue
					}
					if tier != "thorough" && heavy && sub == "reader-failure" {
						continue
					}
					cells = append(cells, map[string]string{"scenario": scName, "sub": sub, "pos": pos})
				}
			}
			return cells, nil
		}}
}

// C07Workloads lists the paired-replay workloads that decide C07.
func C07Workloads() []harness.Workload {
	return []harness.Workload{
		c07Workload("session", false),
		c07Workload("gennaro", false),
		c07Workload("gennaro-cnf-wide", false),
		c07Workload("canetti", false),
		c07Workload("lindell22-bip340", false),
		c07Workload("dkls23-bbot", true),
		c07Workload("dkls23-softspoken", true),
		c07Workload("aor", false),
		c07Workload("redistribute", false),
		c07Workload("lindell17-sign", true),
		{Name: "paired-lindell17-dealer", Run: RunC07Lindell17, EnumerateT: func(t *testing.T, tier string, seedInt int64, _ sim.Seed) ([]map[string]string, error) {
			return []map[string]string{{"sub": "hidden-source"}, {"sub": "sensitivity"}}, nil
		}},
	}
}

// ---- Lindell17 key material: Paillier keys must come from the supplied reader ----

func l17DealDigest(rc *harness.RunCtx, global, stream string) (string, map[sim.ID]string, error) {
	setGlobalRand(rc.T, global)
	spec, err := genFixedThreshold(2, c04IDs)
	if err != nil {
		return "", nil, err
	}
	dealt, pub, err := l17dealer.DealRandom(k256.NewCurve(), spec.lib, l17KeyLen, sim.NewRand(rc.Seed.Sub("rand/l17dealer/"+stream)))
	if err != nil {
		return "", nil, err
	}
	moduli := map[sim.ID]string{}
	for id, sh := range dealt.Iter() {
		for peer, ppk := range sh.PaillierPublicKeys().Iter() {
			moduli[peer] = fmt.Sprintf("%x", sha256.Sum256([]byte(fmt.Sprint(ppk))))
		}
		_ = id
	}
	return hex.EncodeToString(pub.Value().Bytes()), moduli, nil
}

// RunC07Lindell17 checks the Lindell17 trusted dealer with paired executions.
func RunC07Lindell17(rc *harness.RunCtx) harness.Outcome {
	sub := rc.Params["sub"]
	probes := map[string]int{}
	out := harness.Outcome{Class: "lindell17-dealer " + sub, NonTrivial: true, Probes: probes, Params: rc.Params, Cells: []string{"lindell17-dealer|" + sub}, Trace: []string{"lindell17-dealer|" + sub}}
	var herr error
	synctest.Test(rc.T, func(t *testing.T) {
		rc2 := *rc
		rc2.T = t
		pkA, modA, err := l17DealDigest(&rc2, "default", "a")
		if err != nil {
			herr = err
			return
		}
		switch sub {
		case "hidden-source":
			pkB, modB, err := l17DealDigest(&rc2, "other", "a")
			if err != nil {
				herr = err
				return
			}
			if pkA != pkB {
				out.Violation = &harness.Violation{Class: "depends-on-process-global-randomness", Site: "lindell17/trusted_dealer: ECDSA key", Detail: "identical supplied reader, different process-global source: the dealt ECDSA key differs"}
				return
			}
			for id, m := range modA {
				if modB[id] != m {
					out.Violation = &harness.Violation{Class: "depends-on-process-global-randomness", Site: "lindell17 Paillier key generation (nt.GeneratePrimePair -> crypto/rsa.GenerateKey)", Detail: fmt.Sprintf("identical supplied reader, different process-global source: the Paillier key dealt to %d differs, so the key is drawn from crypto/rand and not from the reader the caller supplied", id)}
					return
				}
			}
			probes["hidden_source_pairs_identical"]++
		case "sensitivity":
			pkB, _, err := l17DealDigest(&rc2, "default", "b")
			if err != nil {
				herr = err
				return
			}
			if pkA == pkB {
				out.Violation = &harness.Violation{Class: "joint-value-independent-of-party-stream", Site: "lindell17/trusted_dealer", Detail: "another supplied reader gives the same ECDSA key"}
				return
			}
			probes["joint_value_changed"]++
		}
	})
	if herr != nil {
		return harness.Outcome{HarnessErr: herr}
	}
	return out
}
