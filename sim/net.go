package sim

import (
	"context"
	"crypto/sha256"
	"errors"
	"fmt"
	"sort"
	"strings"
	"sync"
	"time"

	"verif/cbor"

	"github.com/bronlabs/bron-crypto/pkg/mpc/sharing"
)

// ID is a party identifier.
type ID = sharing.ID

// ErrInjectedTransport is returned by Receive after a transport-error fault.
var ErrInjectedTransport = errors.New("sim: injected transport failure")

// MsgKind says how a message came to be in the pool.
type MsgKind int

const (
	KindOrig     MsgKind = iota // sent by a party through Delivery.Send
	KindDup                     // identical retransmission created by the simulator
	KindInject                  // foreign message created by the simulator
	KindConflict                // same sender and correlation id, different payload
)

func (k MsgKind) String() string {
	return [...]string{"orig", "dup", "inject", "conflict"}[k]
}

// Msg is one message in flight.
type Msg struct {
	From, To ID
	// Stream is the correlation id found in the router envelope ("" if the bytes
	// are not an envelope). Link numbers messages per (from, to, stream): two
	// tasks of one party that send in the same scheduler step run in an order the
	// Go scheduler chooses, so a per-link counter alone would not be reproducible.
	Stream string
	Link   uint64
	Copy     int    // 0 = original; n>0 = n-th simulator-made copy
	Kind     MsgKind
	Bytes    []byte
	SentStep int
	Handed   int // how often the scheduler handed it to the reader
	// Withheld marks a message the delivery policy must not pick before step HealStep.
	HealStep int
}

// Key is the canonical identity used for sorting, traces and replay. It does
// not depend on the order in which Send calls of *different* links happened.
func (m *Msg) Key() string {
	return fmt.Sprintf("%d>%d#%s|%d.%d", m.From, m.To, m.Stream, m.Link, m.Copy)
}

// Net is the only transport the system under test sees.
type Net struct {
	mu        sync.Mutex
	eps       map[ID]*Endpoint
	order     []ID
	pending   []*Msg
	delivered []*Msg
	link      map[string]uint64
	step      int

	// OnSend, when set, may rewrite, drop or multiply an outgoing message (wire
	// adversary). It runs in the sender's goroutine and must be a pure function
	// of the message and of the adversary's own plan.
	OnSend func(m *Msg) []*Msg

	SentMsgs  int
	SentBytes int64
}

// NewNet creates a network among the given parties.
func NewNet(ids []ID) *Net {
	n := &Net{eps: map[ID]*Endpoint{}, link: map[string]uint64{}}
	n.order = append(n.order, ids...)
	sort.Slice(n.order, func(i, j int) bool { return n.order[i] < n.order[j] })
	for _, id := range n.order {
		n.eps[id] = &Endpoint{net: n, id: id, quorum: append([]ID(nil), n.order...), inbox: make(chan *Msg), errc: make(chan error)}
	}
	return n
}

// Endpoint returns the Delivery of a party.
func (n *Net) Endpoint(id ID) *Endpoint { return n.eps[id] }

// Parties lists party ids in ascending order.
func (n *Net) Parties() []ID { return n.order }

// Endpoint implements network.Delivery.
type Endpoint struct {
	net     *Net
	id      ID
	quorum  []ID
	inbox   chan *Msg
	errc    chan error
	waiting int // readers blocked in Receive (read at quiescence only)
	// QuorumOverride lets a workload present a different quorum to the router.
	QuorumOverride []ID
}

func (e *Endpoint) PartyID() ID { return e.id }

func (e *Endpoint) Quorum() []ID {
	if e.QuorumOverride != nil {
		return append([]ID(nil), e.QuorumOverride...)
	}
	return append([]ID(nil), e.quorum...)
}

// Send pools the message. It never blocks and never fails: loss, delay and
// duplication are the scheduler's decisions.
func (e *Endpoint) Send(_ context.Context, to ID, message []byte) error {
	n := e.net
	n.mu.Lock()
	defer n.mu.Unlock()
	stream := envelopeStream(message)
	lk := fmt.Sprintf("%d>%d#%s", e.id, to, stream)
	seq := n.link[lk]
	n.link[lk] = seq + 1
	m := &Msg{From: e.id, To: to, Stream: stream, Link: seq, Bytes: append([]byte(nil), message...), SentStep: n.step}
	n.SentMsgs++
	n.SentBytes += int64(len(message))
	out := []*Msg{m}
	if n.OnSend != nil {
		out = n.OnSend(m)
	}
	n.pending = append(n.pending, out...)
	return nil
}

// Receive blocks until the scheduler hands over a message, the context ends or
// a transport error is injected.
func (e *Endpoint) Receive(ctx context.Context) (ID, []byte, error) {
	e.net.mu.Lock()
	e.waiting++
	e.net.mu.Unlock()
	defer func() {
		e.net.mu.Lock()
		e.waiting--
		e.net.mu.Unlock()
	}()
	select {
	case m := <-e.inbox:
		return m.From, append([]byte(nil), m.Bytes...), nil
	case err := <-e.errc:
		return 0, nil, err
	case <-ctx.Done():
		return 0, nil, ctx.Err()
	}
}

// --- scheduler side (called from the root goroutine at quiescence only) ---

// Pending returns the in-flight messages in canonical order.
func (n *Net) Pending() []*Msg {
	n.mu.Lock()
	defer n.mu.Unlock()
	sort.SliceStable(n.pending, func(i, j int) bool { return lessMsg(n.pending[i], n.pending[j]) })
	return append([]*Msg(nil), n.pending...)
}

// Delivered returns messages handed over at least once, in hand-over order.
func (n *Net) Delivered() []*Msg {
	n.mu.Lock()
	defer n.mu.Unlock()
	return append([]*Msg(nil), n.delivered...)
}

func lessMsg(a, b *Msg) bool {
	if a.From != b.From {
		return a.From < b.From
	}
	if a.To != b.To {
		return a.To < b.To
	}
	if a.Stream != b.Stream {
		return a.Stream < b.Stream
	}
	if a.Link != b.Link {
		return a.Link < b.Link
	}
	return a.Copy < b.Copy
}

// ReaderWaiting reports whether a reader of that party is blocked in Receive.
func (n *Net) ReaderWaiting(id ID) bool {
	n.mu.Lock()
	defer n.mu.Unlock()
	e, ok := n.eps[id]
	return ok && e.waiting > 0
}

// Hand gives m to the reader of m.To. keep=true leaves m in the pool (the
// handed copy is then an identical duplicate ahead of the original).
func (n *Net) Hand(m *Msg, keep bool) error {
	n.mu.Lock()
	e := n.eps[m.To]
	if e == nil || e.waiting == 0 {
		n.mu.Unlock()
		return fmt.Errorf("sim: no reader waiting at %d for %s", m.To, m.Key())
	}
	if !keep {
		for i, p := range n.pending {
			if p == m {
				n.pending = append(n.pending[:i], n.pending[i+1:]...)
				break
			}
		}
	}
	m.Handed++
	n.delivered = append(n.delivered, m)
	n.mu.Unlock()
	select {
	case e.inbox <- m:
		return nil
	case <-time.After(time.Hour): // fake clock: fires only if the reader is gone
		return fmt.Errorf("sim: reader at %d vanished", m.To)
	}
}

// Add puts a simulator-made message into the pool.
func (n *Net) Add(m *Msg) {
	n.mu.Lock()
	defer n.mu.Unlock()
	m.SentStep = n.step
	n.pending = append(n.pending, m)
}

// Drop removes a message from the pool (loss).
func (n *Net) Drop(m *Msg) {
	n.mu.Lock()
	defer n.mu.Unlock()
	for i, p := range n.pending {
		if p == m {
			n.pending = append(n.pending[:i], n.pending[i+1:]...)
			return
		}
	}
}

// FailTransport makes the blocked reader of id return an error.
func (n *Net) FailTransport(id ID) bool {
	n.mu.Lock()
	e := n.eps[id]
	ok := e != nil && e.waiting > 0
	n.mu.Unlock()
	if !ok {
		return false
	}
	select {
	case e.errc <- ErrInjectedTransport:
		return true
	case <-time.After(time.Hour):
		return false
	}
}

// SetStep records the scheduler step (stamped on messages sent afterwards).
func (n *Net) SetStep(s int) {
	n.mu.Lock()
	n.step = s
	n.mu.Unlock()
}

// NextCopy returns a fresh copy number for simulator-made copies of m.
func (n *Net) NextCopy(m *Msg) int {
	n.mu.Lock()
	defer n.mu.Unlock()
	max := 0
	for _, l := range [][]*Msg{n.pending, n.delivered} {
		for _, p := range l {
			if p.From == m.From && p.To == m.To && p.Stream == m.Stream && p.Link == m.Link && p.Copy > max {
				max = p.Copy
			}
		}
	}
	return max + 1
}

// envelopeStream extracts the correlation id of a router envelope (a CBOR map
// with the text key "correlationID"), or "" if the bytes are something else.
func envelopeStream(b []byte) string {
	tr, err := cbor.Parse(b)
	if err != nil || tr.Major != 5 {
		return ""
	}
	if l, ok := tr.Find(".correlationID"); ok && l.Node.Major == 3 {
		s := string(l.Node.Bytes)
		if strings.ContainsAny(s, " |") {
			return fmt.Sprintf("h%x", sha256.Sum256(l.Node.Bytes))[:17]
		}
		return s
	}
	return ""
}
