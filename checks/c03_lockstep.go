package checks

import (
	"fmt"
	"math/rand/v2"
	"testing"
	"testing/synctest"

	"github.com/bronlabs/bron-crypto/pkg/base/algebra"
	"github.com/bronlabs/bron-crypto/pkg/base/datastructures/hashmap"
	"github.com/bronlabs/bron-crypto/pkg/mpc"
	"github.com/bronlabs/bron-crypto/pkg/mpc/dkg/canetti"
	"github.com/bronlabs/bron-crypto/pkg/mpc/dkg/gennaro"
	"github.com/bronlabs/bron-crypto/pkg/network"
	"github.com/bronlabs/bron-crypto/pkg/proofs/sigma/compiler"

	"verif/harness"
	"verif/sim"
)

// Round-by-round twins of the DKG runner workloads (the property quantifies over
// both APIs): session participants and DKG participants are driven through
// their RoundN methods in a seeded per-round order, without router and
// network; every message goes through its encoding, unicasts per recipient.
// Same oracle as the runner workload (checkShards).

func lockstepGennaro[G algebra.PrimeGroupElement[G, S], S algebra.PrimeFieldElement[S]](kit *groupKit[G, S], spec *acSpec, seed sim.Seed, order *rand.Rand, comp string) (map[sim.ID]*mpc.BaseShard[G, S], error) {
	ids := spec.ids
	sctxs, err := lockstepSession(ids, seed.Sub("sess"), order)
	if err != nil {
		return nil, fmt.Errorf("session: %w", err)
	}
	perm := func() []sim.ID {
		o := append([]sim.ID(nil), ids...)
		order.Shuffle(len(o), func(i, j int) { o[i], o[j] = o[j], o[i] })
		return o
	}
	type part = gennaro.Participant[G, S]
	ps := map[sim.ID]*part{}
	for _, id := range perm() {
		p, err := gennaro.NewParticipant(sctxs[id], kit.group, spec.libOf(id), compiler.Name(comp), sim.NewRand(seed.Sub(fmt.Sprintf("rand/%d/dkg", id))))
		if err != nil {
			return nil, fmt.Errorf("participant %d: %w", id, err)
		}
		ps[id] = p
	}
	r1b := map[sim.ID]*gennaro.Round1Broadcast[G, S]{}
	r1u := map[sim.ID]network.OutgoingUnicasts[*gennaro.Round1Unicast[G, S], *part]{}
	for _, id := range perm() {
		b, u, err := ps[id].Round1()
		if err != nil {
			return nil, fmt.Errorf("round 1 of %d: %w", id, err)
		}
		if r1b[id], err = viaCBOR(b); err != nil {
			return nil, err
		}
		r1u[id] = u
	}
	r2b := map[sim.ID]*gennaro.Round2Broadcast[G, S]{}
	for _, id := range perm() {
		inB := hashmap.NewComparable[sim.ID, *gennaro.Round1Broadcast[G, S]]()
		inU := hashmap.NewComparable[sim.ID, *gennaro.Round1Unicast[G, S]]()
		for _, o := range ids {
			if o == id {
				continue
			}
			inB.Put(o, r1b[o])
			if m, ok := r1u[o].Get(id); ok {
				mm, err := viaCBOR(m)
				if err != nil {
					return nil, err
				}
				inU.Put(o, mm)
			}
		}
		b, err := ps[id].Round2(inB.Freeze(), inU.Freeze())
		if err != nil {
			return nil, fmt.Errorf("round 2 of %d: %w", id, err)
		}
		if r2b[id], err = viaCBOR(b); err != nil {
			return nil, err
		}
	}
	out := map[sim.ID]*mpc.BaseShard[G, S]{}
	for _, id := range perm() {
		inB := hashmap.NewComparable[sim.ID, *gennaro.Round2Broadcast[G, S]]()
		for _, o := range ids {
			if o != id {
				inB.Put(o, r2b[o])
			}
		}
		sh, err := ps[id].Round3(inB.Freeze())
		if err != nil {
			return nil, fmt.Errorf("round 3 of %d: %w", id, err)
		}
		out[id] = sh
	}
	return out, nil
}

func lockstepCanetti[G algebra.PrimeGroupElement[G, S], S algebra.PrimeFieldElement[S]](kit *groupKit[G, S], spec *acSpec, seed sim.Seed, order *rand.Rand) (map[sim.ID]*mpc.BaseShard[G, S], error) {
	ids := spec.ids
	sctxs, err := lockstepSession(ids, seed.Sub("sess"), order)
	if err != nil {
		return nil, fmt.Errorf("session: %w", err)
	}
	perm := func() []sim.ID {
		o := append([]sim.ID(nil), ids...)
		order.Shuffle(len(o), func(i, j int) { o[i], o[j] = o[j], o[i] })
		return o
	}
	type part = canetti.Participant[G, S]
	ps := map[sim.ID]*part{}
	for _, id := range perm() {
		p, err := canetti.NewParticipant(sctxs[id], spec.libOf(id), kit.group, sim.NewRand(seed.Sub(fmt.Sprintf("rand/%d/dkg", id))))
		if err != nil {
			return nil, fmt.Errorf("participant %d: %w", id, err)
		}
		ps[id] = p
	}
	r1b := map[sim.ID]*canetti.Round1Broadcast[G, S]{}
	for _, id := range perm() {
		b, err := ps[id].Round1()
		if err != nil {
			return nil, fmt.Errorf("round 1 of %d: %w", id, err)
		}
		if r1b[id], err = viaCBOR(b); err != nil {
			return nil, err
		}
	}
	r2b := map[sim.ID]*canetti.Round2Broadcast[G, S]{}
	r2u := map[sim.ID]network.OutgoingUnicasts[*canetti.Round2P2P[G, S], *part]{}
	for _, id := range perm() {
		inB := hashmap.NewComparable[sim.ID, *canetti.Round1Broadcast[G, S]]()
		for _, o := range ids {
			if o != id {
				inB.Put(o, r1b[o])
			}
		}
		b, u, err := ps[id].Round2(inB.Freeze())
		if err != nil {
			return nil, fmt.Errorf("round 2 of %d: %w", id, err)
		}
		if r2b[id], err = viaCBOR(b); err != nil {
			return nil, err
		}
		r2u[id] = u
	}
	r3b := map[sim.ID]*canetti.Round3Broadcast[G, S]{}
	for _, id := range perm() {
		inB := hashmap.NewComparable[sim.ID, *canetti.Round2Broadcast[G, S]]()
		inU := hashmap.NewComparable[sim.ID, *canetti.Round2P2P[G, S]]()
		for _, o := range ids {
			if o == id {
				continue
			}
			inB.Put(o, r2b[o])
			if m, ok := r2u[o].Get(id); ok {
				mm, err := viaCBOR(m)
				if err != nil {
					return nil, err
				}
				inU.Put(o, mm)
			}
		}
		b, err := ps[id].Round3(inB.Freeze(), inU.Freeze())
		if err != nil {
			return nil, fmt.Errorf("round 3 of %d: %w", id, err)
		}
		if r3b[id], err = viaCBOR(b); err != nil {
			return nil, err
		}
	}
	out := map[sim.ID]*mpc.BaseShard[G, S]{}
	for _, id := range perm() {
		inB := hashmap.NewComparable[sim.ID, *canetti.Round3Broadcast[G, S]]()
		for _, o := range ids {
			if o != id {
				inB.Put(o, r3b[o])
			}
		}
		sh, err := ps[id].Round4(inB.Freeze())
		if err != nil {
			return nil, fmt.Errorf("round 4 of %d: %w", id, err)
		}
		out[id] = sh
	}
	return out, nil
}

func runLockstepDKGWith[G algebra.PrimeGroupElement[G, S], S algebra.PrimeFieldElement[S]](rc *harness.RunCtx, kit *groupKit[G, S]) harness.Outcome {
	if err := selfCheckKit(kit); err != nil {
		return harness.Outcome{HarnessErr: err}
	}
	w := rc.Seed.Sub("workload").Rand()
	probes := map[string]int{}
	var spec *acSpec
	for {
		s, err := genAccess(w, 2+w.IntN(4), "")
		if err != nil {
			return harness.Outcome{Violation: &harness.Violation{Class: "policy-refused", Site: "accessstructures", Detail: err.Error()}}
		}
		if s.expectRefusal == "" && !refusedByDesign(kit, s) {
			spec = s
			break
		}
	}
	proto := []string{"gennaro", "canetti"}[w.IntN(2)]
	comp := string(niCompilers[w.IntN(len(niCompilers))])
	class := fmt.Sprintf("lockstep dkg=%s group=%s ac=%s n=%d", proto, kit.name, spec.kind, len(spec.ids))
	if proto == "gennaro" {
		class += " comp=" + comp
	}
	out := func(v *harness.Violation) harness.Outcome {
		return harness.Outcome{Violation: v, Class: class, NonTrivial: true, Probes: probes, Trace: []string{class},
			Sample: map[string]any{"workload": "lockstep-dkg", "config": class, "policy": spec.desc}}
	}
	order := rc.Seed.Sub("order").Rand()
	var shards map[sim.ID]*mpc.BaseShard[G, S]
	var err error
	if proto == "gennaro" {
		shards, err = lockstepGennaro(kit, spec, rc.Seed, order, comp)
	} else {
		shards, err = lockstepCanetti(kit, spec, rc.Seed, order)
	}
	if err != nil {
		return out(&harness.Violation{Class: "honest-run-error", Site: proto + " (round by round)", Detail: oneLineErr(err)})
	}
	kf, v := checkShards(kit, spec, shards, w, proto+" (round by round)", probes)
	if v != nil {
		return out(v)
	}
	probes["round_by_round_runs"]++
	probes["family_"+spec.kind]++
	if spec.nonIdeal {
		probes["non_ideal_structure"]++
	}
	o := out(nil)
	o.Digest = fmt.Sprintf("%x", kf.pkBytes)
	return o
}

func runLockstepDKG(rc *harness.RunCtx) (out harness.Outcome) {
	synctest.Test(rc.T, func(t *testing.T) {
		switch rc.Seed.Sub("group").U64() % 4 {
		case 0:
			out = runLockstepDKGWith(rc, kitK256())
		case 1:
			out = runLockstepDKGWith(rc, kitP256())
		case 2:
			out = runLockstepDKGWith(rc, kitEd25519())
		default:
			out = runLockstepDKGWith(rc, kitPallas())
		}
	})
	return out
}
