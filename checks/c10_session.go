package checks

import (
	"bytes"
	"context"
	"fmt"
	"io"
	"math/rand/v2"
	"sort"
	"testing"
	"testing/synctest"

	"github.com/bronlabs/bron-crypto/pkg/base/algebra"
	"github.com/bronlabs/bron-crypto/pkg/base/curves/edwards25519"
	"github.com/bronlabs/bron-crypto/pkg/base/curves/k256"
	"github.com/bronlabs/bron-crypto/pkg/base/curves/p256"
	"github.com/bronlabs/bron-crypto/pkg/base/curves/pairable/bls12381"
	"github.com/bronlabs/bron-crypto/pkg/mpc/session"
	"github.com/bronlabs/bron-crypto/pkg/mpc/zero/przs"
	"github.com/bronlabs/bron-crypto/pkg/network"

	"verif/harness"
	"verif/sim"
)

// sessionScript runs the real session-setup runner under a namespace.
func sessionScript(name string, id sim.ID, ids []sim.ID, ns string, rnd io.Reader) script {
	return script{name: name, party: id, fn: func(ctx context.Context, rt *network.Router) (any, error) {
		r, err := session.NewSessionRunner(id, quorumOf(ids), rnd)
		if err != nil {
			return nil, err
		}
		return r.Run(ctx, rt.Namespaced(ns), nil)
	}}
}

func seedHead(ctx *session.Context, peer sim.ID, n int) ([]byte, error) {
	rd, ok := ctx.Seeds()[peer]
	if !ok {
		return nil, fmt.Errorf("no seed for peer %d", peer)
	}
	b := make([]byte, n)
	_, err := io.ReadFull(rd, b)
	return b, err
}

func tapeSample(ctx *session.Context, label string) ([]byte, error) {
	return ctx.Transcript().Clone().ExtractBytes(label, 32)
}

// zeroSumCheck samples PRZS shares for every member of a context family and
// checks that they combine to the identity.
func zeroSumCheck[GE algebra.GroupElement[GE]](g algebra.FiniteGroup[GE], ctxs map[sim.ID]*session.Context) error {
	acc := g.OpIdentity()
	for _, id := range sortedCtxIDs(ctxs) {
		sh, err := przs.SampleZeroShare(ctxs[id].Clone(), g)
		if err != nil {
			return fmt.Errorf("SampleZeroShare(%d): %w", id, err)
		}
		acc = acc.Op(sh.Value())
	}
	if !acc.IsOpIdentity() {
		return fmt.Errorf("zero shares over %v do not combine to the identity of %s", sortedCtxIDs(ctxs), g.Name())
	}
	return nil
}

func sortedCtxIDs(m map[sim.ID]*session.Context) []sim.ID {
	var ids []sim.ID
	for id := range m {
		ids = append(ids, id)
	}
	return sortedIDs(ids)
}

// checkSessionContexts is the C10 oracle over the contexts of one session.
// other, when non-nil, is a second session among the same parties.
func checkSessionContexts(w *rand.Rand, ids []sim.ID, ctxs, other map[sim.ID]*session.Context, probes map[string]int) *harness.Violation {
	fail := func(class, f string, a ...any) *harness.Violation {
		return &harness.Violation{Class: class, Site: "session", Detail: fmt.Sprintf(f, a...)}
	}
	ids = sortedIDs(ids)
	first := ctxs[ids[0]]
	t0, err := tapeSample(first, "verif")
	if err != nil {
		return fail("transcript-error", "%v", err)
	}
	for _, id := range ids {
		c := ctxs[id]
		if c.SessionID() != first.SessionID() {
			return fail("sid-mismatch", "party %d session id %x != party %d session id %x", id, c.SessionID(), ids[0], first.SessionID())
		}
		ti, err := tapeSample(c, "verif")
		if err != nil {
			return fail("transcript-error", "%v", err)
		}
		if !bytes.Equal(ti, t0) {
			return fail("transcript-mismatch", "party %d transcript state differs from party %d", id, ids[0])
		}
		if c.HolderID() != id {
			return fail("holder-mismatch", "context of %d reports holder %d", id, c.HolderID())
		}
	}
	// identical further appends keep the transcripts in step
	var t1 []byte
	for i, id := range ids {
		tp := ctxs[id].Transcript().Clone()
		tp.AppendBytes("verif-extra", []byte("same bytes for everybody"))
		b, err := tp.ExtractBytes("verif2", 32)
		if err != nil {
			return fail("transcript-error", "%v", err)
		}
		if i == 0 {
			t1 = b
		} else if !bytes.Equal(t1, b) {
			return fail("transcript-mismatch", "after identical appends party %d differs", id)
		}
	}
	if bytes.Equal(t0, t1) {
		return fail("transcript-insensitive", "appending did not change the transcript output")
	}
	// pairwise seeds: symmetric and pairwise distinct
	seen := map[string]string{}
	for i, a := range ids {
		for _, b := range ids[i+1:] {
			sab, err := seedHead(ctxs[a], b, 64)
			if err != nil {
				return fail("seed-missing", "%v", err)
			}
			sba, err := seedHead(ctxs[b], a, 64)
			if err != nil {
				return fail("seed-missing", "%v", err)
			}
			if !bytes.Equal(sab, sba) {
				return fail("seed-asymmetric", "seed of pair {%d,%d} differs between its two ends", a, b)
			}
			key := string(sab)
			if prev, dup := seen[key]; dup {
				return fail("seed-collision", "pairs %s and {%d,%d} share a seed", prev, a, b)
			}
			seen[key] = fmt.Sprintf("{%d,%d}", a, b)
			// reading again from a fresh Seeds() view restarts the stream (views are independent)
			again, _ := seedHead(ctxs[a], b, 64)
			if !bytes.Equal(again, sab) {
				return fail("seed-view-stateful", "Seeds() views of party %d are not independent", a)
			}
		}
	}
	if other != nil {
		if other[ids[0]].SessionID() == first.SessionID() {
			return fail("sid-repeat", "two sessions among the same parties share a session id")
		}
		for i, a := range ids {
			for _, b := range ids[i+1:] {
				s2, err := seedHead(other[a], b, 64)
				if err != nil {
					return fail("seed-missing", "%v", err)
				}
				if prev, dup := seen[string(s2)]; dup {
					return fail("seed-collision-across-sessions", "pair {%d,%d} of the second session has the seed of pair %s of the first", a, b, prev)
				}
			}
		}
		probes["second_session_compared"]++
	}
	// sub-quorums: every subset of size >= 2 for n <= 5, a random sample otherwise
	n := len(ids)
	type subRes struct {
		tape  []byte
		seeds map[[2]sim.ID][]byte
	}
	subs := map[uint32]subRes{}
	var masks []uint32
	for mask := uint32(1); mask < 1<<n; mask++ {
		if popcount(mask) >= 2 {
			masks = append(masks, mask)
		}
	}
	if n > 5 {
		w.Shuffle(len(masks), func(i, j int) { masks[i], masks[j] = masks[j], masks[i] })
		masks = masks[:24]
		sort.Slice(masks, func(i, j int) bool { return masks[i] < masks[j] })
	}
	tapeSeen := map[string]uint32{string(t0): 0}
	// Every party derives its sub-contexts in its own order, some of them twice:
	// derivation must be a pure function of (parent context, sub-quorum), whatever
	// the party derived before.
	derived := map[sim.ID]map[uint32]*session.Context{}
	for i, id := range ids {
		derived[id] = map[uint32]*session.Context{}
		var mine []uint32
		for _, mask := range masks {
			if mask&(1<<i) != 0 {
				mine = append(mine, mask)
				if w.IntN(4) == 0 {
					mine = append(mine, mask) // derived twice
				}
			}
		}
		w.Shuffle(len(mine), func(a, b int) { mine[a], mine[b] = mine[b], mine[a] })
		for _, mask := range mine {
			q := maskSet(ids, mask)
			sc, err := ctxs[id].SubContext(quorumOf(q))
			if err != nil {
				return fail("subcontext-error", "SubContext(%v) at %d: %v", q, id, err)
			}
			if prev, again := derived[id][mask]; again {
				for _, o := range q {
					if o == id {
						continue
					}
					a, _ := seedHead(prev, o, 32)
					b, _ := seedHead(sc, o, 32)
					if !bytes.Equal(a, b) {
						return fail("subcontext-not-reproducible", "party %d derived the sub-context of %v twice and got different seeds for peer %d", id, q, o)
					}
				}
				probes["subcontext_derived_twice"]++
			}
			derived[id][mask] = sc
		}
	}
	for _, mask := range masks {
		var q []sim.ID
		for i, id := range ids {
			if mask&(1<<i) != 0 {
				q = append(q, id)
			}
		}
		sub := map[sim.ID]*session.Context{}
		for _, id := range q {
			sub[id] = derived[id][mask]
		}
		res := subRes{seeds: map[[2]sim.ID][]byte{}}
		for i, id := range q {
			tb, err := tapeSample(sub[id], "verif")
			if err != nil {
				return fail("transcript-error", "%v", err)
			}
			if i == 0 {
				res.tape = tb
			} else if !bytes.Equal(res.tape, tb) {
				return fail("subcontext-transcript-mismatch", "sub-quorum %v: members %d and %d disagree on the transcript", q, q[0], id)
			}
			if sub[id].SessionID() != first.SessionID() {
				return fail("subcontext-sid", "sub-quorum %v changes the session id", q)
			}
		}
		if prev, dup := tapeSeen[string(res.tape)]; dup && mask != (1<<n)-1 {
			return fail("subcontext-not-separated", "sub-quorum %v has the transcript state of quorum mask %b", q, prev)
		}
		if mask == (1<<n)-1 {
			if _, dup := tapeSeen[string(res.tape)]; dup {
				return fail("subcontext-not-separated", "full sub-quorum context equals its parent context")
			}
		}
		tapeSeen[string(res.tape)] = mask
		for i, a := range q {
			for _, b := range q[i+1:] {
				sab, e1 := seedHead(sub[a], b, 64)
				sba, e2 := seedHead(sub[b], a, 64)
				if e1 != nil || e2 != nil {
					return fail("seed-missing", "sub-quorum %v pair {%d,%d}: %v %v", q, a, b, e1, e2)
				}
				if !bytes.Equal(sab, sba) {
					return fail("subcontext-seed-asymmetric", "sub-quorum %v: seed of pair {%d,%d} differs between its ends", q, a, b)
				}
				if prev, dup := seen[string(sab)]; dup {
					return fail("subcontext-seed-not-separated", "sub-quorum %v pair {%d,%d} reuses the seed of %s", q, a, b, prev)
				}
				seen[string(sab)] = fmt.Sprintf("{%d,%d}@%v", a, b, q)
			}
		}
		subs[mask] = res
		// zero shares over this (sub)quorum, in a group chosen per run
		var zerr error
		switch w.IntN(6) {
		case 0:
			zerr = zeroSumCheck(k256.NewScalarField(), sub)
		case 1:
			zerr = zeroSumCheck(p256.NewScalarField(), sub)
		case 2:
			zerr = zeroSumCheck(edwards25519.NewScalarField(), sub)
		case 3:
			zerr = zeroSumCheck(bls12381.NewScalarField(), sub)
		case 4:
			zerr = zeroSumCheck(k256.NewCurve(), sub)
		default:
			zerr = zeroSumCheck(p256.NewCurve(), sub)
		}
		if zerr != nil {
			return fail("zero-share-sum", "%v", zerr)
		}
		probes["subquorums_checked"]++
	}
	// zero shares over the full session context too
	if err := zeroSumCheck(k256.NewScalarField(), ctxs); err != nil {
		return fail("zero-share-sum", "%v", err)
	}
	return nil
}

func popcount(x uint32) int {
	n := 0
	for ; x != 0; x &= x - 1 {
		n++
	}
	return n
}

// RunSessionHonest is workload C10/session-runner (also counted for C11 (c)).
func RunSessionHonest(rc *harness.RunCtx) (out harness.Outcome) {
	synctest.Test(rc.T, func(t *testing.T) { out = runSessionHonest(rc) })
	return out
}

func runSessionHonest(rc *harness.RunCtx) harness.Outcome {
	w := rc.Seed.Sub("workload").Rand()
	n := 2 + w.IntN(5)
	if w.IntN(6) == 0 {
		n = 7 + w.IntN(12) // large quorums (7..18): per-peer loops, buffers and maps grow
	}
	ids := pickIDs(w, n)
	two := w.IntN(3) == 0 && n <= 8
	pr := newProtoRun(rc, ids, true)
	for _, id := range ids {
		pr.start(sessionScript(fmt.Sprintf("s1@%d", id), id, ids, "s1", sim.NewRand(rc.Seed.Sub(fmt.Sprintf("rand/%d/s1", id)))))
		if two {
			pr.start(sessionScript(fmt.Sprintf("s2@%d", id), id, ids, "s2", sim.NewRand(rc.Seed.Sub(fmt.Sprintf("rand/%d/s2", id)))))
		}
	}
	if err := pr.run(); err != nil {
		pr.finish()
		return harness.Outcome{HarnessErr: err}
	}
	viol := pr.firstFailure("session")
	if viol == nil {
		viol = pr.livenessViolation("session")
	}
	pr.finish()
	class := fmt.Sprintf("session n=%d two=%v %s", n, two, pr.netClass())
	if viol == nil {
		ctxs := map[sim.ID]*session.Context{}
		var other map[sim.ID]*session.Context
		if two {
			other = map[sim.ID]*session.Context{}
		}
		for _, id := range ids {
			o, _ := pr.tasks[fmt.Sprintf("s1@%d", id)].Result()
			ctxs[id] = o.(*session.Context)
			if two {
				o2, _ := pr.tasks[fmt.Sprintf("s2@%d", id)].Result()
				other[id] = o2.(*session.Context)
			}
		}
		viol = checkSessionContexts(w, ids, ctxs, other, pr.probes)
		if viol == nil && two {
			viol = checkSessionContexts(w, ids, other, nil, pr.probes)
		}
	}
	sample := map[string]any{"workload": "session-runner", "config": class, "ids": pr.ids, "trace_head": head(pr.cl.Trace, 12), "steps": pr.cl.Stats.Steps}
	dig := ""
	if viol == nil {
		if o, _ := pr.tasks[fmt.Sprintf("s1@%d", ids[0])].Result(); o != nil {
			dig = fmt.Sprintf("%x", o.(*session.Context).SessionID())
		}
	}
	return harness.Outcome{Violation: viol, Class: class, NonTrivial: pr.nontrivial(), Trace: pr.cl.Trace, Stats: pr.cl.Stats, Probes: pr.probes, Sample: sample, Digest: dig}
}
