package checks

import (
	"bytes"
	"context"
	"fmt"
	"io"
	"math/rand/v2"
	"testing"
	"testing/synctest"

	"github.com/bronlabs/bron-crypto/pkg/base/algebra"
	"github.com/bronlabs/bron-crypto/pkg/mpc"
	"github.com/bronlabs/bron-crypto/pkg/mpc/dkg/canetti"
	"github.com/bronlabs/bron-crypto/pkg/mpc/dkg/gennaro"
	"github.com/bronlabs/bron-crypto/pkg/mpc/dkg/trusteddealer"
	"github.com/bronlabs/bron-crypto/pkg/mpc/session"
	"github.com/bronlabs/bron-crypto/pkg/mpc/sharing/accessstructures/hierarchical"
	"github.com/bronlabs/bron-crypto/pkg/mpc/sharing/scheme/kw"
	"github.com/bronlabs/bron-crypto/pkg/network"
	"github.com/bronlabs/bron-crypto/pkg/proofs/sigma/compiler"
	"github.com/bronlabs/bron-crypto/pkg/proofs/sigma/compiler/fiatshamir"
	"github.com/bronlabs/bron-crypto/pkg/proofs/sigma/compiler/fischlin"
	"github.com/bronlabs/bron-crypto/pkg/proofs/sigma/compiler/randfischlin"

	"verif/harness"
	"verif/sim"
)

var niCompilers = []compiler.Name{fiatshamir.Name, fischlin.Name, randfischlin.Name}

// dkgScript: session setup then the chosen DKG, all through real runners.
func dkgScript[G algebra.PrimeGroupElement[G, S], S algebra.PrimeFieldElement[S]](
	name string, id sim.ID, spec *acSpec, kit *groupKit[G, S], proto string, comp compiler.Name, ns string, rnd io.Reader, rndProto ...io.Reader,
) script {
	prnd := rnd
	if len(rndProto) > 0 && rndProto[0] != nil {
		prnd = rndProto[0] // separate stream for the protocol stage (C07 varies it independently of the session stage)
	}
	return script{name: name, party: id, fn: func(ctx context.Context, rt *network.Router) (any, error) {
		sr, err := session.NewSessionRunner(id, quorumOf(spec.ids), rnd)
		if err != nil {
			return nil, err
		}
		sctx, err := sr.Run(ctx, rt.Namespaced(ns+"-sess"), nil)
		if err != nil {
			return nil, err
		}
		var r network.Runner[*mpc.BaseShard[G, S]]
		switch proto {
		case "gennaro":
			r, err = gennaro.NewRunner(sctx, kit.group, spec.libOf(id), comp, prnd)
		case "canetti":
			r, err = canetti.NewRunner(sctx, spec.libOf(id), kit.group, prnd)
		default:
			return nil, fmt.Errorf("unknown dkg %q", proto)
		}
		if err != nil {
			return nil, err
		}
		return r.Run(ctx, rt.Namespaced(ns+"-dkg"), nil)
	}}
}

// refusedByDesign: the only refusals accepted as a trivial pass are the
// documented ones (hierarchical layouts violating Tassa's condition).
func refusedByDesign[G algebra.PrimeGroupElement[G, S], S algebra.PrimeFieldElement[S]](kit *groupKit[G, S], spec *acSpec) bool {
	if h, ok := spec.lib.(*hierarchical.HierarchicalConjunctiveThreshold); ok {
		if hierarchical.CheckConstraints(kit.sf(), h) != nil {
			return true
		}
	}
	return false
}

type dkgCfg struct {
	n         int
	proto     string
	comp      compiler.Name
	two       bool
	diskFault bool
	kind      string
}

func drawDKGCfg(w *rand.Rand, heavy bool) dkgCfg {
	c := dkgCfg{n: 2 + w.IntN(4)}
	if w.IntN(12) == 0 {
		c.n = 6
	}
	if heavy && c.n > 3 {
		c.n = 3
	}
	switch w.IntN(5) {
	case 0, 1:
		c.proto = "gennaro"
	case 2, 3:
		c.proto = "canetti"
	default:
		c.proto = "dealer"
	}
	c.comp = niCompilers[w.IntN(len(niCompilers))]
	c.two = w.IntN(4) == 0 && !heavy
	c.diskFault = w.IntN(3) == 0
	return c
}

func runDKGWith[G algebra.PrimeGroupElement[G, S], S algebra.PrimeFieldElement[S]](rc *harness.RunCtx, kit *groupKit[G, S], heavy bool) harness.Outcome {
	if err := selfCheckKit(kit); err != nil {
		return harness.Outcome{HarnessErr: err}
	}
	w := rc.Seed.Sub("workload").Rand()
	cfg := drawDKGCfg(w, heavy)
	spec, err := genAccess(w, cfg.n, rc.Params["kind"])
	if err != nil {
		return harness.Outcome{Violation: &harness.Violation{Class: "policy-refused", Site: "accessstructures", Detail: err.Error()}}
	}
	class := fmt.Sprintf("dkg=%s/%s group=%s ac=%s n=%d two=%v disk=%v", cfg.proto, cfg.comp, kit.name, spec.kind, cfg.n, cfg.two, cfg.diskFault)
	if cfg.proto != "gennaro" {
		class = fmt.Sprintf("dkg=%s group=%s ac=%s n=%d two=%v disk=%v", cfg.proto, kit.name, spec.kind, cfg.n, cfg.two, cfg.diskFault)
	}
	probes := map[string]int{}
	if spec.expectRefusal != "" {
		if _, err := kw.NewScheme(kit.sf(), spec.lib); err != nil {
			return harness.Outcome{Skipped: true, Class: class, Probes: map[string]int{"refused_interleaved_hierarchical_layout": 1}}
		}
		probes["accepted_layout_documented_as_unsupported"]++ // the oracle below judges the outcome
	} else if refusedByDesign(kit, spec) {
		return harness.Outcome{Skipped: true, Class: class, Probes: map[string]int{"refused_hierarchical_layout": 1}}
	}
	shardSets := []map[sim.ID]*mpc.BaseShard[G, S]{}
	var stats sim.Stats
	var trace []string
	nontrivial := false

	if cfg.proto == "dealer" {
		for k := 0; k < 2; k++ {
			out, err := trusteddealer.Deal(kit.group, spec.lib, sim.NewRand(rc.Seed.Sub(fmt.Sprintf("rand/dealer/%d", k))))
			if err != nil {
				return harness.Outcome{Violation: &harness.Violation{Class: "honest-run-error", Site: "trusteddealer", Detail: oneLineErr(err)}, Class: class}
			}
			set := map[sim.ID]*mpc.BaseShard[G, S]{}
			for id, sh := range out.Iter() {
				set[id] = sh
			}
			shardSets = append(shardSets, set)
		}
		nontrivial = true
		trace = []string{"dealer"}
	} else {
		pr := newProtoRun(rc, spec.ids, true)
		sessions := []string{"A"}
		if cfg.two {
			sessions = append(sessions, "B")
		}
		for _, s := range sessions {
			for _, id := range spec.ids {
				rnd := sim.NewRand(rc.Seed.Sub(fmt.Sprintf("rand/%d/%s", id, s)))
				pr.start(dkgScript(fmt.Sprintf("%s@%d", s, id), id, spec, kit, cfg.proto, cfg.comp, s, rnd))
			}
		}
		if err := pr.run(); err != nil {
			pr.finish()
			return harness.Outcome{HarnessErr: err}
		}
		viol := pr.firstFailure(cfg.proto)
		if viol == nil {
			viol = pr.livenessViolation(cfg.proto)
		}
		pr.finish()
		stats, trace, nontrivial = pr.cl.Stats, pr.cl.Trace, pr.nontrivial()
		for k, v := range pr.probes {
			probes[k] += v
		}
		class += " " + pr.netClass()
		if viol != nil {
			return harness.Outcome{Violation: viol, Class: class, Trace: trace, Stats: stats, Probes: probes, NonTrivial: nontrivial}
		}
		for _, s := range sessions {
			set := map[sim.ID]*mpc.BaseShard[G, S]{}
			for _, id := range spec.ids {
				o, _ := pr.tasks[fmt.Sprintf("%s@%d", s, id)].Result()
				set[id] = o.(*mpc.BaseShard[G, S])
			}
			shardSets = append(shardSets, set)
		}
	}

	var viol *harness.Violation
	var facts []*keyFacts
	reuse := &pmReuse[G, S]{}
	for _, set := range shardSets {
		kf, v := checkShards(kit, spec, set, w, cfg.proto, probes)
		if v != nil {
			viol = v
			break
		}
		facts = append(facts, kf)
		for _, id := range spec.ids {
			if v := reloadPublicMaterial(reuse, set[id], id, cfg.proto, probes); v != nil {
				viol = v
				break
			}
		}
		if viol != nil {
			break
		}
		re, v := persistReload(kit, set, spec.ids, w, cfg.diskFault, cfg.proto, probes)
		if v != nil {
			viol = v
			break
		}
		kf2, v := checkShards(kit, spec, re, w, cfg.proto+"/reloaded", probes)
		if v != nil {
			viol = v
			break
		}
		if kf2.secret.Cmp(kf.secret) != 0 || !bytes.Equal(kf2.pkBytes, kf.pkBytes) {
			viol = &harness.Violation{Class: "reload-changed-key", Site: cfg.proto, Detail: "key differs after persist and reload"}
			break
		}
	}
	if viol == nil && len(facts) == 2 {
		if facts[0].secret.Cmp(facts[1].secret) == 0 || bytes.Equal(facts[0].pkBytes, facts[1].pkBytes) {
			viol = &harness.Violation{Class: "keys-not-independent", Site: cfg.proto, Detail: "two runs with different random streams produced the same key"}
		}
		probes["independent_runs_compared"]++
	}
	if spec.nonIdeal {
		probes["non_ideal_structure"]++
	}
	probes["family_"+spec.kind]++
	sample := map[string]any{"workload": "dkg", "config": class, "policy": spec.desc, "trace_head": head(trace, 10), "steps": stats.Steps}
	dig := ""
	for _, f := range facts {
		dig += fmt.Sprintf("%x|", f.pkBytes)
	}
	return harness.Outcome{Violation: viol, Class: class, NonTrivial: nontrivial, Trace: trace, Stats: stats, Probes: probes, Sample: sample, Digest: dig}
}

// RunDKG dispatches on the group named in the workload.
func runDKGGroup(rc *harness.RunCtx, group string) (out harness.Outcome) {
	synctest.Test(rc.T, func(t *testing.T) {
		switch group {
		case "k256":
			out = runDKGWith(rc, kitK256(), false)
		case "p256":
			out = runDKGWith(rc, kitP256(), false)
		case "ed25519":
			out = runDKGWith(rc, kitEd25519(), false)
		case "pallas":
			out = runDKGWith(rc, kitPallas(), false)
		case "vesta":
			out = runDKGWith(rc, kitVesta(), false)
		case "bls12381g1":
			out = runDKGWith(rc, kitBLSG1(), true)
		case "bls12381g2":
			out = runDKGWith(rc, kitBLSG2(), true)
		default:
			out = harness.Outcome{HarnessErr: fmt.Errorf("unknown group %q", group)}
		}
	})
	return out
}

func dkgWorkload(group string, quick, thorough int) harness.Workload {
	return harness.Workload{Name: "dkg-" + group, Quick: quick, Thorough: thorough, Run: func(rc *harness.RunCtx) harness.Outcome { return runDKGGroup(rc, group) }}
}

// dkgEdgeWorkload: hierarchical layouts the library documents as unsupported
// (ids not increasing by level) must be refused, or else must work.
func dkgEdgeWorkload(quick, thorough int) harness.Workload {
	return harness.Workload{Name: "dkg-hierarchical-edge-k256", Quick: quick, Thorough: thorough, Run: func(rc *harness.RunCtx) harness.Outcome {
		rc2 := *rc
		rc2.Params = map[string]string{"kind": "hierarchical+interleaved"}
		for k, v := range rc.Params {
			rc2.Params[k] = v
		}
		return runDKGGroup(&rc2, "k256")
	}}
}

// C03Workloads lists the simulated-run families that decide C03.
func C03Workloads() []harness.Workload {
	return []harness.Workload{
		dkgEdgeWorkload(400, 4000),
		dkgWorkload("k256", 40, 6000),
		dkgWorkload("p256", 24, 3000),
		dkgWorkload("ed25519", 24, 3000),
		dkgWorkload("pallas", 12, 1500),
		dkgWorkload("vesta", 12, 1500),
		dkgWorkload("bls12381g1", 8, 600),
		dkgWorkload("bls12381g2", 4, 300),
		{Name: "lockstep-dkg", Quick: 24, Thorough: 2000, Run: runLockstepDKG},
		l17KeygenWorkload("lindell17-dealer", false, 8, 400),
		l17KeygenWorkload("lindell17-dkg", true, 1, 24),
	}
}
