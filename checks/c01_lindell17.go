package checks

import (
	"context"
	"fmt"
	"testing"
	"testing/synctest"

	"github.com/bronlabs/bron-crypto/pkg/base/curves/k256"
	"github.com/bronlabs/bron-crypto/pkg/base/serde"
	"github.com/bronlabs/bron-crypto/pkg/mpc"
	"github.com/bronlabs/bron-crypto/pkg/mpc/dkg/trusteddealer"
	"github.com/bronlabs/bron-crypto/pkg/mpc/session"
	"github.com/bronlabs/bron-crypto/pkg/mpc/signatures/ecdsa/lindell17"
	l17dkg "github.com/bronlabs/bron-crypto/pkg/mpc/signatures/ecdsa/lindell17/keygen/dkg"
	l17dealer "github.com/bronlabs/bron-crypto/pkg/mpc/signatures/ecdsa/lindell17/keygen/trusted_dealer"
	l17signing "github.com/bronlabs/bron-crypto/pkg/mpc/signatures/ecdsa/lindell17/signing"
	"github.com/bronlabs/bron-crypto/pkg/network"
	"github.com/bronlabs/bron-crypto/pkg/proofs/sigma/compiler"
	"github.com/bronlabs/bron-crypto/pkg/proofs/sigma/compiler/fischlin"
	"github.com/bronlabs/bron-crypto/pkg/proofs/sigma/compiler/randfischlin"
	sigecdsa "github.com/bronlabs/bron-crypto/pkg/signatures/ecdsa"

	"verif/harness"
	"verif/sim"
)

type l17Shard = lindell17.Shard[*k256Point, *k256Base, *k256Scalar]

const l17KeyLen = 1024 // the library accepts sub-3072-bit Paillier moduli only under `go test`

// RunLindell17 is workload C01/sign-lindell17: Paillier-based two-party ECDSA.
// Key material: the Lindell17 trusted dealer, or (keysource=dkg) base shards from
// the generic trusted dealer upgraded by the real eight-round Lindell17 DKG over
// the simulated network. Signing: real session setup between primary and
// secondary, real runners, benign network faults; the shards go through CBOR
// persistence first.
func RunLindell17(rc *harness.RunCtx, useDKG bool) (out harness.Outcome) {
	synctest.Test(rc.T, func(t *testing.T) { out = runLindell17(rc, useDKG) })
	return out
}

func runLindell17(rc *harness.RunCtx, useDKG bool) harness.Outcome {
	w := rc.Seed.Sub("workload").Rand()
	probes := map[string]int{}
	curve := k256.NewCurve()
	kit := kitK256()
	n := 2 + w.IntN(3)
	if useDKG {
		n = 2 + w.IntN(2)
	}
	var spec *acSpec
	var pair []sim.ID
	for tries := 0; ; tries++ {
		kind := ""
		if tries > 6 {
			kind = "threshold"
		}
		s, err := genAccess(w, n, kind)
		if err != nil {
			return harness.Outcome{Violation: &harness.Violation{Class: "policy-refused", Site: "accessstructures", Detail: err.Error()}}
		}
		if s.expectRefusal != "" || refusedByDesign(kit, s) {
			continue
		}
		if q := drawQuorum(w, s, true, probes); q != nil {
			spec, pair = s, q
			break
		}
		if tries > 30 {
			return harness.Outcome{HarnessErr: fmt.Errorf("no structure with a qualified pair")}
		}
	}
	comp := []compiler.Name{fischlin.Name, randfischlin.Name}[w.IntN(2)]
	class := fmt.Sprintf("sign=lindell17 ac=%s n=%d dkg=%v comp=%s", spec.kind, n, useDKG, comp)
	fail := func(cl, f string, a ...any) harness.Outcome {
		return harness.Outcome{Violation: &harness.Violation{Class: cl, Site: "lindell17", Detail: fmt.Sprintf(f, a...)}, Class: class, Probes: probes, NonTrivial: true}
	}
	shards := map[sim.ID]*l17Shard{}
	var pk *k256Point
	var stats sim.Stats
	var trace []string
	if !useDKG {
		dealt, pub, err := l17dealer.DealRandom(curve, spec.lib, l17KeyLen, sim.NewRand(rc.Seed.Sub("rand/dealer")))
		if err != nil {
			return fail("honest-run-error", "trusted dealer: %s", oneLineErr(err))
		}
		for id, sh := range dealt.Iter() {
			shards[id] = sh
		}
		pk = pub.Value()
	} else {
		base, err := trusteddealer.Deal(curve, spec.lib, sim.NewRand(rc.Seed.Sub("rand/basedealer")))
		if err != nil {
			return fail("honest-run-error", "base dealer: %s", oneLineErr(err))
		}
		pr := newProtoRun(rc, spec.ids, true)
		for _, id := range spec.ids {
			id := id
			b, _ := base.Get(id)
			pr.start(script{name: fmt.Sprintf("D@%d", id), party: id, fn: func(ctx context.Context, rt *network.Router) (any, error) {
				rnd := sim.NewRand(rc.Seed.Sub(fmt.Sprintf("rand/%d/dkg", id)))
				sr, err := session.NewSessionRunner(id, quorumOf(spec.ids), rnd)
				if err != nil {
					return nil, err
				}
				sctx, err := sr.Run(ctx, rt.Namespaced("D-sess"), nil)
				if err != nil {
					return nil, err
				}
				r, err := l17dkg.NewRunner(sctx, b, l17KeyLen, curve, rnd, comp)
				if err != nil {
					return nil, err
				}
				return r.Run(ctx, rt.Namespaced("D-dkg"), nil)
			}})
		}
		if err := pr.run(); err != nil {
			pr.finish()
			return harness.Outcome{HarnessErr: err}
		}
		viol := pr.firstFailure("lindell17-dkg")
		if viol == nil {
			viol = pr.livenessViolation("lindell17-dkg")
		}
		pr.finish()
		stats, trace = pr.cl.Stats, pr.cl.Trace
		if viol != nil {
			return harness.Outcome{Violation: viol, Class: class, Trace: trace, Stats: stats, Probes: probes, NonTrivial: true}
		}
		bs := map[sim.ID]*mpc.BaseShard[*k256Point, *k256Scalar]{}
		for _, id := range spec.ids {
			o, _ := pr.tasks[fmt.Sprintf("D@%d", id)].Result()
			shards[id] = o.(*l17Shard)
			bs[id] = &shards[id].BaseShard
		}
		// the DKG must not change the key material it was given
		if _, v := checkShards(kit, spec, bs, w, "lindell17-dkg", probes); v != nil {
			return harness.Outcome{Violation: v, Class: class, Trace: trace, Stats: stats, Probes: probes, NonTrivial: true}
		}
		pk = shards[spec.ids[0]].PublicKeyValue()
		probes["lindell17_dkg_completed"]++
	}
	// persistence: the shards the cosigners use went through their CBOR encoding
	for _, id := range pair {
		enc, err := serde.MarshalCBOR(shards[id])
		if err != nil {
			return fail("encode-error", "shard of %d: %v", id, err)
		}
		re, err := serde.UnmarshalCBOR[*l17Shard](enc)
		if err != nil {
			return fail("reload-failed", "Lindell17 shard of %d does not reload from its own encoding: %s", id, oneLineErr(err))
		}
		if !re.Equal(shards[id]) {
			return fail("reload-changed", "reloaded Lindell17 shard of %d differs", id)
		}
		shards[id] = re
	}
	// signing: either member of the pair may be the primary
	primary, secondary := pair[0], pair[1]
	if w.IntN(2) == 0 {
		primary, secondary = secondary, primary
	}
	msg := drawMessage(w)
	hname, hfn := drawHash(w, rc.Index)
	class += " hash=" + hname
	suite, err := sigecdsa.NewSuite(curve, hfn)
	if err != nil {
		return harness.Outcome{HarnessErr: err}
	}
	rc2 := *rc
	rc2.Seed = rc.Seed.Sub("sign")
	if rc.Replay != nil {
		rc2.Replay = []string{} // schedule of the signing phase: canonical on replay
	}
	pr := newProtoRun(&rc2, pair, true)
	for _, id := range pair {
		id := id
		pr.start(script{name: fmt.Sprintf("S@%d", id), party: id, fn: func(ctx context.Context, rt *network.Router) (any, error) {
			rnd := sim.NewRand(rc.Seed.Sub(fmt.Sprintf("rand/%d/sign", id)))
			sr, err := session.NewSessionRunner(id, quorumOf(pair), rnd)
			if err != nil {
				return nil, err
			}
			sctx, err := sr.Run(ctx, rt.Namespaced("S-sess"), nil)
			if err != nil {
				return nil, err
			}
			var r network.Runner[*sigecdsa.Signature[*k256Scalar]]
			if id == primary {
				r, err = l17signing.NewPrimaryRunner(sctx, suite, secondary, shards[id], comp, rnd, msg)
			} else {
				r, err = l17signing.NewSecondaryRunner(sctx, suite, primary, shards[id], comp, rnd, msg)
			}
			if err != nil {
				return nil, err
			}
			return r.Run(ctx, rt.Namespaced("S-sign"), nil)
		}})
	}
	if err := pr.run(); err != nil {
		pr.finish()
		return harness.Outcome{HarnessErr: err}
	}
	viol := pr.firstFailure("lindell17-sign")
	if viol == nil {
		viol = pr.livenessViolation("lindell17-sign")
	}
	pr.finish()
	trace = append(trace, pr.cl.Trace...)
	stats.Steps += pr.cl.Stats.Steps
	stats.Delivered += pr.cl.Stats.Delivered
	stats.NonFIFO += pr.cl.Stats.NonFIFO
	if stats.Fired == nil {
		stats.Fired = map[string]int{}
	}
	for k, v := range pr.cl.Stats.Fired {
		stats.Fired[k] += v
	}
	for k, v := range pr.probes {
		probes[k] += v
	}
	dig := ""
	if viol == nil {
		o, _ := pr.tasks[fmt.Sprintf("S@%d", primary)].Result()
		sig, _ := o.(*sigecdsa.Signature[*k256Scalar])
		if sig == nil {
			return fail("no-signature", "the primary cosigner returned no signature")
		}
		if err := refECDSAVerify(kit, ecdsaK256(), hfn, pk, msg, sig); err != nil {
			return fail("independent-verifier-rejects", "%v", err)
		}
		other := append([]byte{1}, msg...)
		if refECDSAVerify(kit, ecdsaK256(), hfn, pk, other, sig) == nil {
			return fail("verifies-for-other-message", "signature verifies for another message")
		}
		vf, err := sigecdsa.NewVerifier(suite)
		if err == nil {
			lpk, _ := sigecdsa.NewPublicKey(pk)
			if verr := vf.Verify(sig, lpk, msg); verr != nil {
				return fail("library-verifier-rejects", "%s", oneLineErr(verr))
			}
		}
		probes["independent_verifications"]++
		dig = fmt.Sprintf("%x", sig.R().Bytes())
	}
	probes["family_"+spec.kind]++
	sample := map[string]any{"workload": "sign-lindell17", "config": class, "policy": spec.desc, "pair": pair, "primary": primary, "msg_len": len(msg)}
	return harness.Outcome{Violation: viol, Class: class + " " + pr.netClass(), NonTrivial: true, Trace: trace, Stats: stats, Probes: probes, Sample: sample, Digest: dig}
}

func init() {
	extraSignFlavors["lindell17"] = func(rc *harness.RunCtx) harness.Outcome { return runLindell17(rc, false) }
	extraSignFlavors["lindell17-dkg"] = func(rc *harness.RunCtx) harness.Outcome { return runLindell17(rc, true) }
}
