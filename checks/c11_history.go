package checks

import (
	"fmt"
	"reflect"
	"sort"
	"strings"
	"time"

	"github.com/anishathalye/porcupine"

	"verif/sim"
)

// ---- sequential mailbox model for porcupine (one partition per party and full correlation id) ----

type hIn struct {
	Kind    string // "dep", "recv", "cancel"
	From    sim.ID
	Member  bool
	Payload string
	Froms   []sim.ID
	OpID    string
}

type hOut struct {
	OK       bool
	Payloads map[sim.ID]string
	ErrKind  string // "dup", "cancelled", "other"
	Blame    []sim.ID
}

type hState struct {
	Box       map[sim.ID]string
	PoisonBy  map[sim.ID]bool
	Cancelled map[string]bool
}

func (s hState) clone() hState {
	n := hState{Box: map[sim.ID]string{}, PoisonBy: map[sim.ID]bool{}, Cancelled: map[string]bool{}}
	for k, v := range s.Box {
		n.Box[k] = v
	}
	for k, v := range s.PoisonBy {
		n.PoisonBy[k] = v
	}
	for k, v := range s.Cancelled {
		n.Cancelled[k] = v
	}
	return n
}

var mailboxModel = porcupine.Model{
	Init: func() interface{} {
		return hState{Box: map[sim.ID]string{}, PoisonBy: map[sim.ID]bool{}, Cancelled: map[string]bool{}}
	},
	Step: func(state, input, output interface{}) (bool, interface{}) {
		s := state.(hState)
		in := input.(hIn)
		switch in.Kind {
		case "dep":
			if !in.Member {
				return true, s // non-members are dropped
			}
			n := s.clone()
			if old, ok := n.Box[in.From]; ok {
				if old != in.Payload {
					n.PoisonBy[in.From] = true
				}
				return true, n
			}
			n.Box[in.From] = in.Payload
			return true, n
		case "cancel":
			n := s.clone()
			n.Cancelled[in.OpID] = true
			return true, n
		case "recv":
			out := output.(hOut)
			cancelledOK := s.Cancelled[in.OpID] && !out.OK && out.ErrKind == "cancelled"
			if len(s.PoisonBy) > 0 {
				if !out.OK && out.ErrKind == "dup" && len(out.Blame) == 1 && s.PoisonBy[out.Blame[0]] {
					return true, s
				}
				return cancelledOK, s // the property is silent on poison vs cancel: either is accepted
			}
			complete := true
			for _, f := range in.Froms {
				if _, ok := s.Box[f]; !ok {
					complete = false
				}
			}
			if complete {
				if out.OK {
					if len(out.Payloads) != len(in.Froms) {
						return false, s
					}
					for _, f := range in.Froms {
						if out.Payloads[f] != s.Box[f] {
							return false, s
						}
					}
					n := s.clone()
					for _, f := range in.Froms {
						delete(n.Box, f)
					}
					return true, n
				}
				return cancelledOK, s // complete and cancelled: either outcome
			}
			return cancelledOK, s
		}
		return false, s
	},
	Equal: func(a, b interface{}) bool { return reflect.DeepEqual(a, b) },
	DescribeOperation: func(input, output interface{}) string {
		return fmt.Sprintf("%+v -> %+v", input, output)
	},
}

// hRecord is one recorded operation of one party's router on one correlation id.
type hRecord struct {
	party sim.ID
	cid   string
	op    porcupine.Operation
}

// checkHistories runs porcupine per (party, correlation id). It must be called
// outside the bubble (the checker uses real timers).
func checkHistories(recs []hRecord) (illegal string, unknown int, checked int) {
	groups := map[string][]porcupine.Operation{}
	for _, r := range recs {
		k := fmt.Sprintf("%d|%s", r.party, r.cid)
		groups[k] = append(groups[k], r.op)
	}
	keys := make([]string, 0, len(groups))
	for k := range groups {
		keys = append(keys, k)
	}
	sort.Strings(keys)
	for _, k := range keys {
		ops := groups[k]
		if len(ops) > 200 {
			unknown++
			continue
		}
		res := porcupine.CheckOperationsTimeout(mailboxModel, ops, 20*time.Second)
		checked++
		switch res {
		case porcupine.Illegal:
			var lines []string
			sort.Slice(ops, func(i, j int) bool { return ops[i].Call < ops[j].Call })
			for _, o := range ops {
				lines = append(lines, fmt.Sprintf("[%d,%d] %+v => %+v", o.Call, o.Return, o.Input, o.Output))
			}
			return fmt.Sprintf("history of router %s is not linearizable against the mailbox model: %s", k, strings.Join(lines, " ; ")), unknown, checked
		case porcupine.Unknown:
			unknown++
		}
	}
	return "", unknown, checked
}
