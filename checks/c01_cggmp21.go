package checks

import (
	"context"
	"fmt"

	"github.com/bronlabs/bron-crypto/pkg/base/curves/k256"
	"github.com/bronlabs/bron-crypto/pkg/base/serde"
	"github.com/bronlabs/bron-crypto/pkg/mpc"
	"github.com/bronlabs/bron-crypto/pkg/mpc/dkg/trusteddealer"
	"github.com/bronlabs/bron-crypto/pkg/mpc/session"
	"github.com/bronlabs/bron-crypto/pkg/mpc/signatures/ecdsa/cggmp21"
	cggdkg "github.com/bronlabs/bron-crypto/pkg/mpc/signatures/ecdsa/cggmp21/keygen/dkg"
	cggdealer "github.com/bronlabs/bron-crypto/pkg/mpc/signatures/ecdsa/cggmp21/keygen/trusteddealer"
	cggsigning "github.com/bronlabs/bron-crypto/pkg/mpc/signatures/ecdsa/cggmp21/signing"
	"github.com/bronlabs/bron-crypto/pkg/network"
	sigecdsa "github.com/bronlabs/bron-crypto/pkg/signatures/ecdsa"

	"verif/harness"
	"verif/sim"
)

type (
	cggShard   = cggmp21.Shard[*k256Point, *k256Base, *k256Scalar]
	cggPartial = cggmp21.PartialSignature[*k256Point, *k256Base, *k256Scalar]
)

const cggKeyLen = 2048 // the smallest modulus the parameter set admits is 1792 bits

// runCGGMP21 is workload C01/sign-cggmp21: CGGMP21 threshold ECDSA.
// Key material: the CGGMP21 trusted dealer, or (useDKG) base shards from the
// generic trusted dealer upgraded by the real four-round auxiliary-information
// DKG over the simulated network. Signing: real session setup among the quorum
// (any qualified quorum, minimal or not), real runners, benign network faults;
// the shards go through their CBOR encoding first; every cosigner aggregates
// with its session-bound aggregator and an outsider with the stateless one.
func runCGGMP21(rc *harness.RunCtx, useDKG bool) harness.Outcome {
	w := rc.Seed.Sub("workload").Rand()
	probes := map[string]int{}
	curve := k256.NewCurve()
	kit := kitK256()
	if err := selfCheckKit(kit); err != nil {
		return harness.Outcome{HarnessErr: err}
	}
	n := 2 + w.IntN(3)
	if useDKG {
		n = 2 + w.IntN(2)
	}
	var spec *acSpec
	var quorum []sim.ID
	for tries := 0; ; tries++ {
		s, err := genAccess(w, n, "")
		if err != nil {
			return harness.Outcome{Violation: &harness.Violation{Class: "policy-refused", Site: "accessstructures", Detail: err.Error()}}
		}
		if s.expectRefusal != "" || refusedByDesign(kit, s) {
			continue
		}
		if q := drawQuorum(w, s, false, probes); len(q) >= 2 {
			spec, quorum = s, q
			break
		}
		if tries > 30 {
			return harness.Outcome{HarnessErr: fmt.Errorf("no structure with a quorum of at least two")}
		}
	}
	hname, hfn := drawHash(w, rc.Index)
	class := fmt.Sprintf("sign=cggmp21 ac=%s n=%d q=%d dkg=%v hash=%s", spec.kind, n, len(quorum), useDKG, hname)
	var stats sim.Stats
	var trace []string
	out := func(v *harness.Violation) harness.Outcome {
		return harness.Outcome{Violation: v, Class: class, NonTrivial: true, Trace: trace, Stats: stats, Probes: probes,
			Sample: map[string]any{"workload": "sign-cggmp21", "config": class, "policy": spec.desc, "quorum": quorum}}
	}
	fail := func(cl, f string, a ...any) harness.Outcome {
		return out(&harness.Violation{Class: cl, Site: "cggmp21", Detail: fmt.Sprintf(f, a...)})
	}
	shards := map[sim.ID]*cggShard{}
	if !useDKG {
		dealt, err := cggdealer.Deal(curve, spec.lib, cggKeyLen, sim.NewRand(rc.Seed.Sub("rand/dealer")))
		if err != nil {
			return fail("honest-run-error", "trusted dealer: %s", oneLineErr(err))
		}
		for id, sh := range dealt {
			shards[id] = sh
		}
		probes["keysource_dealer"]++
	} else {
		base, err := trusteddealer.Deal(curve, spec.lib, sim.NewRand(rc.Seed.Sub("rand/basedealer")))
		if err != nil {
			return fail("honest-run-error", "base dealer: %s", oneLineErr(err))
		}
		pr := newProtoRun(rc, spec.ids, true)
		for _, id := range spec.ids {
			id := id
			b, _ := base.Get(id)
			pr.start(script{name: fmt.Sprintf("D@%d", id), party: id, fn: func(ctx context.Context, rt *network.Router) (any, error) {
				rnd := sim.NewRand(rc.Seed.Sub(fmt.Sprintf("rand/%d/dkg", id)))
				sr, err := session.NewSessionRunner(id, quorumOf(spec.ids), rnd)
				if err != nil {
					return nil, err
				}
				sctx, err := sr.Run(ctx, rt.Namespaced("D-sess"), nil)
				if err != nil {
					return nil, err
				}
				r, err := cggdkg.NewRunner[*k256Point, *k256Base, *k256Scalar](sctx, b, rnd)
				if err != nil {
					return nil, err
				}
				return r.Run(ctx, rt.Namespaced("D-dkg"), nil)
			}})
		}
		if err := pr.run(); err != nil {
			pr.finish()
			return harness.Outcome{HarnessErr: err}
		}
		viol := pr.firstFailure("cggmp21-dkg")
		if viol == nil {
			viol = pr.livenessViolation("cggmp21-dkg")
		}
		pr.finish()
		stats, trace = pr.cl.Stats, pr.cl.Trace
		for k, v := range pr.probes {
			probes[k] += v
		}
		if viol != nil {
			return out(viol)
		}
		for _, id := range spec.ids {
			o, _ := pr.tasks[fmt.Sprintf("D@%d", id)].Result()
			sh, _ := o.(*cggShard)
			if sh == nil {
				return fail("missing-shard", "holder %d completed the auxiliary DKG without a shard", id)
			}
			shards[id] = sh
			b, _ := base.Get(id)
			if !sh.Share().Equal(b.Share()) {
				return fail("share-changed", "the auxiliary DKG changed the ECDSA share of %d", id)
			}
		}
		probes["cggmp21_dkg_completed"]++
	}
	bs := map[sim.ID]*mpc.BaseShard[*k256Point, *k256Scalar]{}
	for id, sh := range shards {
		bs[id] = &sh.BaseShard
	}
	if _, v := checkShards(kit, spec, bs, w, "cggmp21-keygen", probes); v != nil {
		return out(v)
	}
	pk := shards[spec.ids[0]].PublicKeyValue()
	// persistence
	for _, id := range quorum {
		enc, err := serde.MarshalCBOR(shards[id])
		if err != nil {
			return fail("encode-error", "shard of %d: %v", id, err)
		}
		re, err := serde.UnmarshalCBOR[*cggShard](enc)
		if err != nil {
			return fail("reload-failed", "CGGMP21 shard of %d does not reload from its own encoding: %s", id, oneLineErr(err))
		}
		enc2, err := serde.MarshalCBOR(re)
		if err != nil || string(enc2) != string(enc) {
			return fail("reload-changed", "re-encoding the reloaded CGGMP21 shard of %d gives other bytes", id)
		}
		shards[id] = re
	}
	msg := drawMessage(w)
	suite, err := sigecdsa.NewSuite(curve, hfn)
	if err != nil {
		return harness.Outcome{HarnessErr: err}
	}
	rc2 := *rc
	rc2.Seed = rc.Seed.Sub("sign")
	if rc.Replay != nil && useDKG {
		rc2.Replay = []string{} // schedule of the signing phase: canonical on replay
	}
	pr := newProtoRun(&rc2, quorum, true)
	for _, id := range quorum {
		id := id
		pr.start(script{name: fmt.Sprintf("S@%d", id), party: id, fn: func(ctx context.Context, rt *network.Router) (any, error) {
			rnd := sim.NewRand(rc.Seed.Sub(fmt.Sprintf("rand/%d/sign", id)))
			sr, err := session.NewSessionRunner(id, quorumOf(quorum), rnd)
			if err != nil {
				return nil, err
			}
			sctx, err := sr.Run(ctx, rt.Namespaced("S-sess"), nil)
			if err != nil {
				return nil, err
			}
			r, err := cggsigning.NewRunner(sctx, suite, shards[id], msg, rnd)
			if err != nil {
				return nil, err
			}
			return r.Run(ctx, rt.Namespaced("S-sign"), nil)
		}})
	}
	if err := pr.run(); err != nil {
		pr.finish()
		return harness.Outcome{HarnessErr: err}
	}
	viol := pr.firstFailure("cggmp21-sign")
	if viol == nil {
		viol = pr.livenessViolation("cggmp21-sign")
	}
	pr.finish()
	trace = append(trace, pr.cl.Trace...)
	stats.Steps += pr.cl.Stats.Steps
	stats.Delivered += pr.cl.Stats.Delivered
	stats.NonFIFO += pr.cl.Stats.NonFIFO
	if stats.Fired == nil {
		stats.Fired = map[string]int{}
	}
	for k, v := range pr.cl.Stats.Fired {
		stats.Fired[k] += v
	}
	for k, v := range pr.probes {
		probes[k] += v
	}
	if viol != nil {
		return out(viol)
	}
	partials := map[sim.ID]*cggPartial{}
	results := map[sim.ID]*cggsigning.SignResult[*k256Point, *k256Base, *k256Scalar]{}
	for _, id := range quorum {
		o, _ := pr.tasks[fmt.Sprintf("S@%d", id)].Result()
		r, _ := o.(*cggsigning.SignResult[*k256Point, *k256Base, *k256Scalar])
		if r == nil || r.PartialSignature() == nil {
			return fail("no-signature", "cosigner %d returned no partial signature", id)
		}
		// the partial signature travels to the aggregators in its wire form
		enc, err := serde.MarshalCBOR(r.PartialSignature())
		if err != nil {
			return fail("encode-error", "partial signature of %d: %v", id, err)
		}
		ps, err := serde.UnmarshalCBOR[*cggPartial](enc)
		if err != nil {
			return fail("reload-failed", "partial signature of %d does not decode from its own encoding: %s", id, oneLineErr(err))
		}
		partials[id] = ps
		results[id] = r
	}
	var first *sigecdsa.Signature[*k256Scalar]
	check := func(who string, sig *sigecdsa.Signature[*k256Scalar], err error) *harness.Violation {
		if err != nil {
			return &harness.Violation{Class: "aggregate-error", Site: "cggmp21", Detail: fmt.Sprintf("aggregation at %s failed in an all-honest run: %s", who, oneLineErr(err))}
		}
		if first == nil {
			first = sig
		} else if !first.Equal(sig) {
			return &harness.Violation{Class: "aggregators-disagree", Site: "cggmp21", Detail: fmt.Sprintf("aggregator %s obtains another signature than the first aggregator", who)}
		}
		return nil
	}
	for _, id := range quorum {
		sig, err := results[id].PartialSignatureCosigningAggregator().Aggregate(partials)
		if v := check(fmt.Sprintf("cosigner %d", id), sig, err); v != nil {
			return out(v)
		}
	}
	off, err := cggsigning.NewNonCosigningAggregator[*k256Point, *k256Base, *k256Scalar](curve)
	if err != nil {
		return harness.Outcome{HarnessErr: err}
	}
	sig, err := off.Aggregate(partials)
	if v := check("the stateless aggregator", sig, err); v != nil {
		return out(v)
	}
	probes["non_cosigning_aggregator"]++
	if err := refECDSAVerify(kit, ecdsaK256(), hfn, pk, msg, first); err != nil {
		return fail("independent-verifier-rejects", "%v (quorum %v)", err, quorum)
	}
	other := append([]byte{1}, msg...)
	if refECDSAVerify(kit, ecdsaK256(), hfn, pk, other, first) == nil {
		return fail("verifies-for-other-message", "signature verifies for another message")
	}
	if vf, err := sigecdsa.NewVerifier(suite); err == nil {
		lpk, _ := sigecdsa.NewPublicKey(pk)
		if verr := vf.Verify(first, lpk, msg); verr != nil {
			return fail("library-verifier-rejects", "%s", oneLineErr(verr))
		}
	}
	probes["independent_verifications"]++
	if spec.nonIdeal {
		probes["non_ideal_structure"]++
	}
	probes["family_"+spec.kind]++
	o := out(nil)
	o.Class = class + " " + pr.netClass()
	// Not the signature: the library caches the Joye-Paillier prime-search parameters per
	// process (computed from the first caller's reader) and races workers in the safe-prime
	// search, so the moduli, and through rejection sampling against them the later draws of
	// every party, depend on what ran earlier in this worker process. What is a function of
	// the seed: the ECDSA key, the quorum, the message and the schedule.
	o.Digest = fmt.Sprintf("%x|%v|%x", pk.Bytes(), quorum, msg)
	return o
}

func init() {
	extraSignFlavors["cggmp21"] = func(rc *harness.RunCtx) harness.Outcome { return runCGGMP21(rc, false) }
	extraSignFlavors["cggmp21-dkg"] = func(rc *harness.RunCtx) harness.Outcome { return runCGGMP21(rc, true) }
}
