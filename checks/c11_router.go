package checks

import (
	"bytes"
	"context"
	"errors"
	"fmt"
	"math/rand/v2"
	"sort"
	"strings"
	"testing"
	"testing/synctest"

	"github.com/bronlabs/errs-go/errs"

	"github.com/bronlabs/bron-crypto/pkg/base"
	"github.com/bronlabs/bron-crypto/pkg/base/serde"
	"github.com/bronlabs/bron-crypto/pkg/network"

	"verif/harness"
	"verif/sim"
)

// envelope mirrors the router's wire envelope (field names are the wire
// contract; the Go type in the library is unexported).
type envelope struct {
	From          uint64 `cbor:"from"`
	CorrelationID string `cbor:"correlationID"`
	Payload       []byte `cbor:"payload"`
}

func encodeEnvelope(cid string, payload []byte) []byte {
	b, err := serde.MarshalCBOR(&envelope{CorrelationID: cid, Payload: payload})
	if err != nil {
		panic(err)
	}
	return b
}

func decodeEnvelope(b []byte) (envelope, error) {
	return serde.UnmarshalCBOR[envelope](b)
}

// ---- reference mailbox model (sequential, written from the documentation) ----

type refBox struct {
	payloads map[sim.ID][]byte
	poisonBy map[sim.ID]bool // every sender with two different payloads under this id
	poisoned bool
	alt      map[sim.ID][]byte // the conflicting payload last seen per sender
}

type refRouter struct {
	quorum map[sim.ID]bool
	boxes  map[string]*refBox
	fatal  string // "", "closed", "terr", "full"
}

func newRefRouter(quorum []sim.ID) *refRouter {
	r := &refRouter{quorum: map[sim.ID]bool{}, boxes: map[string]*refBox{}}
	for _, q := range quorum {
		r.quorum[q] = true
	}
	return r
}

func (r *refRouter) box(cid string) *refBox {
	b := r.boxes[cid]
	if b == nil {
		b = &refBox{payloads: map[sim.ID][]byte{}}
		r.boxes[cid] = b
	}
	return b
}

func (r *refRouter) buffered() int {
	n := 0
	for _, b := range r.boxes {
		n += len(b.payloads)
	}
	return n
}

// deposit: what the documentation says happens to an arriving message.
func (r *refRouter) deposit(from sim.ID, cid string, payload []byte) string {
	if r.fatal != "" {
		return "ignored-fatal"
	}
	if !r.quorum[from] {
		return "dropped-nonmember"
	}
	b := r.box(cid)
	if old, ok := b.payloads[from]; ok {
		if bytes.Equal(old, payload) {
			return "absorbed"
		}
		if b.poisonBy == nil {
			b.poisonBy = map[sim.ID]bool{}
		}
		b.poisoned, b.poisonBy[from] = true, true
		if b.alt == nil {
			b.alt = map[sim.ID][]byte{}
		}
		b.alt[from] = payload
		return "poisoned"
	}
	b.payloads[from] = payload
	return "stored"
}

type refVerdict struct {
	ready    bool
	ok       bool
	payloads map[sim.ID][]byte
	reason   string // "poison", "fatal:closed", ...
	blame    map[sim.ID]bool
}

// evaluate: what a receive for (cid, froms) must return now, if anything.
func (r *refRouter) evaluate(cid string, froms []sim.ID, cancelled bool) refVerdict {
	b := r.box(cid)
	if b.poisoned {
		return refVerdict{ready: true, reason: "poison", blame: b.poisonBy}
	}
	complete := true
	got := map[sim.ID][]byte{}
	for _, f := range froms {
		p, ok := b.payloads[f]
		if !ok {
			complete = false
			break
		}
		got[f] = p
	}
	if complete {
		return refVerdict{ready: true, ok: true, payloads: got}
	}
	if r.fatal != "" {
		return refVerdict{ready: true, reason: "fatal:" + r.fatal}
	}
	if cancelled {
		return refVerdict{ready: true, reason: "cancelled"}
	}
	return refVerdict{}
}

func (r *refRouter) consume(cid string, froms []sim.ID) {
	b := r.box(cid)
	for _, f := range froms {
		delete(b.payloads, f)
	}
}

// ---- workload ----

type rExchange struct {
	ns    []string
	cid   string
	parts []sim.ID
}

func (x *rExchange) full() string {
	var sb strings.Builder
	for _, n := range x.ns {
		sb.WriteString(n)
		sb.WriteString("/")
	}
	sb.WriteString(x.cid)
	return sb.String()
}

// rPayload is the unique payload of (sender, recipient, full id). One in eight is
// the empty payload (a bare acknowledgement or barrier message is legal): it is
// still a message, must be delivered, absorbed when retransmitted and reported
// when contradicted like any other.
func rPayload(from, to sim.ID, full string, pad int) []byte {
	switch harness.HashU64("empty-payload", fmt.Sprint(from), fmt.Sprint(to), full) % 16 {
	case 0:
		return nil // travels as CBOR null
	case 8:
		return []byte{} // travels as an empty byte string
	}
	return []byte(fmt.Sprintf("P|%d>%d|%s|%s", from, to, full, strings.Repeat("x", pad)))
}

type rOp struct {
	id      string
	party   sim.ID
	client  int
	recv    bool
	ex      *rExchange
	peers   []sim.ID // recipients (send) or requested senders (recv)
	started bool     // current attempt started
	done    bool     // finished for good (success, or failure not to be retried)
	exIdx   int
	fatalAtInvoke string // router already failed/closed when this attempt was invoked
	attempt int
	cancel  context.CancelFunc
	cancelled bool
	result  map[sim.ID][]byte
	err     error
	returned bool // current attempt returned
	invokeStep, returnStep int
}

type rClient struct {
	party sim.ID
	idx   int
	ops   []*rOp
	pos   int
	start chan struct{}
}

type routerRun struct {
	rc      *harness.RunCtx
	cl      *sim.Cluster
	ids     []sim.ID
	routers map[sim.ID]*network.Router
	model   map[sim.ID]*refRouter
	exch    []*rExchange
	byFull  map[string]*rExchange
	clients []*rClient
	ops     []*rOp
	closed  map[sim.ID]string
	probes  map[string]int
	viol    *harness.Violation
	faultKinds map[string]bool
	conflicts int
	injN    uint64

	fine     bool
	fh       any
	hist     []hRecord
	pendDeps map[sim.ID][]*hRecord
	noHist   map[sim.ID]bool
	recvRec  map[*rOp]*hRecord
}

func (rr *routerRun) callStamp() int64 { return int64(2 * rr.cl.Step) }
func (rr *routerRun) retStamp() int64  { return int64(2*rr.cl.Step - 1) }

// closeDeposits: a deposit interval ends when the reader is back in Delivery.Receive.
func (rr *routerRun) closeDeposits(final bool) {
	for _, id := range rr.ids {
		if len(rr.pendDeps[id]) == 0 {
			continue
		}
		if final || rr.cl.Net.ReaderWaiting(id) {
			for _, r := range rr.pendDeps[id] {
				r.op.Return = rr.retStamp()
				if final {
					r.op.Return = int64(2*rr.cl.Step + 2)
				}
				rr.hist = append(rr.hist, *r)
			}
			rr.pendDeps[id] = nil
		}
	}
}

func (rr *routerRun) recordReturn(op *rOp) {
	r := rr.recvRec[op]
	if r == nil {
		return
	}
	delete(rr.recvRec, op)
	out := hOut{}
	switch {
	case op.err == nil:
		out.OK = true
		out.Payloads = map[sim.ID]string{}
		for k, v := range op.result {
			out.Payloads[k] = string(v)
		}
	case errs.Is(op.err, network.ErrDuplicateMessage):
		out.ErrKind, out.Blame = "dup", blamed(op.err)
	case errors.Is(op.err, context.Canceled) || strings.Contains(op.err.Error(), context.Canceled.Error()):
		out.ErrKind = "cancelled"
	default:
		out.ErrKind = "other"
		rr.noHist[op.party] = true
	}
	r.op.Output = out
	r.op.Return = rr.retStamp()
	rr.hist = append(rr.hist, *r)
}

func pickIDs(r *rand.Rand, n int) []sim.ID {
	seen := map[sim.ID]bool{}
	var ids []sim.ID
	mode := r.IntN(4)
	for len(ids) < n {
		var id sim.ID
		switch mode {
		case 0:
			id = sim.ID(1 + r.IntN(n+2))
		case 1:
			id = sim.ID(1 + r.IntN(65535))
		case 2:
			id = sim.ID(1 + r.Uint64()>>1)
		default:
			id = sim.ID(1 + r.IntN(300))
		}
		if id == 0 || seen[id] {
			continue
		}
		seen[id] = true
		ids = append(ids, id)
	}
	return ids
}

// RunRouterMacro is workload C11/router-macro.
func RunRouterMacro(rc *harness.RunCtx) harness.Outcome { return runRouterWorkload(rc, false) }

// RunRouterFine is workload C11/router-fine (needs the instrumented router: build tag finestep).
func RunRouterFine(rc *harness.RunCtx) harness.Outcome {
	if !fineAvailable {
		return harness.Outcome{Skipped: true, Class: "router-fine unavailable in this binary"}
	}
	return runRouterWorkload(rc, true)
}

func runRouterWorkload(rc *harness.RunCtx, fineMode bool) (out harness.Outcome) {
	var hist []hRecord
	var noHist map[sim.ID]bool
	synctest.Test(rc.T, func(t *testing.T) {
		out, hist, noHist = runRouter(rc, fineMode)
	})
	if out.Violation == nil && out.HarnessErr == nil && !out.Skipped {
		// history oracle (outside the bubble: the checker uses real timers)
		var use []hRecord
		for _, r := range hist {
			if !noHist[r.party] {
				use = append(use, r)
			}
		}
		illegal, unknown, checked := checkHistories(use)
		if out.Probes != nil {
			out.Probes["histories_checked"] += checked
			out.Probes["histories_inconclusive"] += unknown
		}
		if illegal != "" {
			out.Violation = &harness.Violation{Class: "history-not-linearizable", Site: "router", Detail: illegal}
		}
	}
	return out
}

func runRouter(rc *harness.RunCtx, fineMode bool) (harness.Outcome, []hRecord, map[sim.ID]bool) {
	w := rc.Seed.Sub("workload").Rand()
	n := 2 + w.IntN(4)
	ids := pickIDs(w, n)
	rr := &routerRun{rc: rc, ids: ids, routers: map[sim.ID]*network.Router{}, model: map[sim.ID]*refRouter{}, byFull: map[string]*rExchange{}, closed: map[sim.ID]string{}, probes: map[string]int{}, faultKinds: map[string]bool{},
		pendDeps: map[sim.ID][]*hRecord{}, noHist: map[sim.ID]bool{}, recvRec: map[*rOp]*hRecord{}, fine: fineMode}
	if fineMode {
		rr.fh = fineInstall()
	}
	cl := sim.NewCluster(rc.Seed, ids)
	rr.cl = cl
	cl.Policy = sim.Policy(w.IntN(6))
	cl.MaxSteps = 4000
	// swarm: enable a random subset of fault kinds
	for _, k := range []string{"dup", "redeliver", "inject", "conflict", "cancel", "close", "terr"} {
		if w.IntN(3) == 0 {
			rr.faultKinds[k] = true
		}
	}
	if w.IntN(5) == 0 { // fault-free configuration, reported separately
		rr.faultKinds = map[string]bool{}
	}
	if fineMode {
		// router failures are the macro-step workload's subject; here the history oracle needs live routers
		delete(rr.faultKinds, "close")
		delete(rr.faultKinds, "terr")
		cl.MaxSteps = 30000
	}
	fm := sim.FaultMix{Budget: 1 + w.IntN(8)}
	if rr.faultKinds["dup"] {
		fm.DupRate = 0.08
	}
	if rr.faultKinds["redeliver"] {
		fm.RedeliverRate = 0.08
	}
	if rr.faultKinds["inject"] {
		fm.InjectRate = 0.08
	}
	fm.ExtraRate = 0.10
	if len(rr.faultKinds) == 0 {
		fm.Budget = 0
	}
	cl.Faults = fm

	// plan exchanges
	nsPool := []string{"a", "b", "sess1", "x", "", ".", "..", "a.b", "a b"} // only "/" is forbidden in a namespace label
	cidPool := []string{"R1", "R2", "UNICAST:R1", "k"}
	ne := 1 + w.IntN(5)
	for len(rr.exch) < ne {
		x := &rExchange{cid: cidPool[w.IntN(len(cidPool))]}
		for d := w.IntN(3); d > 0; d-- {
			x.ns = append(x.ns, nsPool[w.IntN(len(nsPool))])
		}
		if rr.byFull[x.full()] != nil {
			continue
		}
		k := 2 + w.IntN(n-1)
		perm := w.Perm(n)
		for _, i := range perm[:k] {
			x.parts = append(x.parts, ids[i])
		}
		sort.Slice(x.parts, func(i, j int) bool { return x.parts[i] < x.parts[j] })
		rr.exch = append(rr.exch, x)
		rr.byFull[x.full()] = x
	}
	// ops and clients
	for _, id := range ids {
		rr.model[id] = newRefRouter(ids)
		nc := 1 + w.IntN(3)
		var cs []*rClient
		for k := 0; k < nc; k++ {
			c := &rClient{party: id, idx: k, start: make(chan struct{})}
			cs = append(cs, c)
			rr.clients = append(rr.clients, c)
		}
		for xi, x := range rr.exch {
			var others []sim.ID
			member := false
			for _, p := range x.parts {
				if p == id {
					member = true
				} else {
					others = append(others, p)
				}
			}
			if !member {
				continue
			}
			so := &rOp{id: fmt.Sprintf("%d.s%d", id, xi), party: id, ex: x, peers: others, exIdx: xi}
			c := cs[w.IntN(nc)]
			so.client = c.idx
			c.ops = append(c.ops, so)
			rr.ops = append(rr.ops, so)
			// receive: one call for all senders, or two sequential calls for a split
			groups := [][]sim.ID{others}
			if len(others) >= 2 && w.IntN(4) == 0 {
				k := 1 + w.IntN(len(others)-1)
				groups = [][]sim.ID{others[:k], others[k:]}
			}
			c2 := cs[w.IntN(nc)]
			for gi, g := range groups {
				ro := &rOp{id: fmt.Sprintf("%d.r%d.%d", id, xi, gi), party: id, recv: true, ex: x, peers: g, client: c2.idx, exIdx: xi}
				c2.ops = append(c2.ops, ro)
				rr.ops = append(rr.ops, ro)
			}
		}
		for _, c := range cs {
			// Deadlock-free by construction: ops ordered by exchange index with the
			// send first (a blocked receive on the lowest blocked exchange always
			// waits for a send whose client is not blocked); sends, which never
			// block, may additionally move earlier at random.
			sort.SliceStable(c.ops, func(i, j int) bool {
				a, b := c.ops[i], c.ops[j]
				if a.exIdx != b.exIdx {
					return a.exIdx < b.exIdx
				}
				if a.recv != b.recv {
					return !a.recv
				}
				return a.id < b.id
			})
			for i := 1; i < len(c.ops); i++ {
				if !c.ops[i].recv && w.IntN(2) == 0 {
					j := w.IntN(i)
					op := c.ops[i]
					copy(c.ops[j+1:i+1], c.ops[j:i])
					c.ops[j] = op
				}
			}
		}
	}
	pad := w.IntN(40)

	// routers and client goroutines
	for _, id := range ids {
		rr.routers[id] = network.NewRouter(cl.Net.Endpoint(id))
	}
	for _, c := range rr.clients {
		c := c
		cl.Go(fmt.Sprintf("client%d.%d", c.party, c.idx), c.party, nil, func(ctx context.Context) (any, error) {
			for {
				select {
				case <-c.start:
				case <-ctx.Done():
					return nil, nil
				}
				op := c.ops[c.pos]
				rt := rr.routers[c.party]
				for _, nsn := range op.ex.ns {
					rt = rt.Namespaced(nsn)
				}
				if !op.recv {
					msgs := map[sim.ID][]byte{}
					for _, to := range op.peers {
						msgs[to] = rPayload(c.party, to, op.ex.full(), pad)
					}
					op.err = rt.SendTo(ctx, op.ex.cid, msgs)
					op.returned = true
					continue
				}
				octx, cancel := context.WithCancel(ctx)
				op.cancel = cancel
				op.result, op.err = rt.ReceiveFrom(octx, op.ex.cid, op.peers...)
				cancel()
				op.returned = true
			}
		})
	}

	cl.OnHand = func(_ *sim.Cluster, m *sim.Msg, kind string) {
		env, err := decodeEnvelope(m.Bytes)
		if err != nil {
			return
		}
		res := rr.model[m.To].deposit(m.From, env.CorrelationID, env.Payload)
		rr.probes["deposit_"+res]++
		if rr.model[m.To].fatal == "" {
			rec := &hRecord{party: m.To, cid: env.CorrelationID}
			rec.op.Input = hIn{Kind: "dep", From: m.From, Member: rr.model[m.To].quorum[m.From], Payload: string(env.Payload)}
			rec.op.Call = rr.callStamp()
			rec.op.Output = hOut{}
			rr.pendDeps[m.To] = append(rr.pendDeps[m.To], rec)
		}
		if kind == "redeliver" && res == "stored" {
			rr.probes["duplicate_after_consumption_buffered"]++
		}
	}
	cl.MakeInject = rr.makeInject
	cl.Extra = rr.extraEvents
	cl.Invariant = rr.invariant
	cl.Replay = rc.Replay

	res := cl.Run()
	var ie *sim.InvariantError
	if res.Err != nil && !errors.As(res.Err, &ie) {
		rr.shutdown()
		return harness.Outcome{HarnessErr: res.Err}, nil, nil
	}
	rr.closeDeposits(true)
	if rr.viol == nil && !cl.Stats.CapHit {
		rr.finalChecks()
	}
	if rr.viol == nil && cl.Stats.CapHit {
		// the cap must never be reached while messages are deliverable in this bounded workload
		rr.viol = &harness.Violation{Class: "step-cap", Site: "router", Detail: fmt.Sprintf("step cap %d reached with deliverable messages", cl.MaxSteps)}
	}
	rr.shutdown()

	kinds := make([]string, 0, len(rr.faultKinds))
	for k := range rr.faultKinds {
		kinds = append(kinds, k)
	}
	sort.Strings(kinds)
	class := fmt.Sprintf("n=%d ex=%d pol=%s faults=%s", n, len(rr.exch), cl.Policy, strings.Join(kinds, ","))
	nfaults := 0
	for k, v := range cl.Stats.Fired {
		if k != "deliver" && k != "start" {
			nfaults += v
		}
	}
	sample := map[string]any{"workload": "router-macro", "config": class, "ids": ids, "exchanges": exchStrings(rr.exch), "trace_head": head(cl.Trace, 25), "steps": cl.Stats.Steps}
	if fineMode {
		class = "fine " + class
		steps, sites := fineStats(rr.fh)
		rr.probes["fine_task_steps"] += steps
		rr.probes["fine_distinct_sites_hit"] += len(sites)
		sample["workload"] = "router-fine"
	}
	return harness.Outcome{Violation: rr.viol, Class: class, NonTrivial: cl.Stats.NonFIFO > 0 || nfaults > 0 || fineMode, Trace: cl.Trace, Stats: cl.Stats, Probes: rr.probes, Sample: sample}, rr.hist, rr.noHist
}

func exchStrings(xs []*rExchange) []string {
	var out []string
	for _, x := range xs {
		out = append(out, fmt.Sprintf("%s among %v", x.full(), x.parts))
	}
	return out
}

func head(s []string, n int) []string {
	if len(s) > n {
		return s[:n]
	}
	return s
}

func (rr *routerRun) shutdown() {
	if rr.fine {
		for _, t := range rr.cl.Tasks {
			t.Cancel()
		}
		fineUninstall() // releases parked tasks; from here on the router runs uninstrumented
		synctest.Wait()
	}
	for _, id := range rr.ids {
		rr.routers[id].Close()
	}
	rr.cl.Drain()
}

func (rr *routerRun) fail(class, detail string) {
	if rr.viol == nil {
		rr.viol = &harness.Violation{Class: class, Site: "router", Detail: detail}
	}
}

func (c *rClient) idle() bool { return c.pos < len(c.ops) && !c.ops[c.pos].started }

func (rr *routerRun) extraEvents(cl *sim.Cluster) []sim.Event {
	var evs []sim.Event
	for _, c := range rr.clients {
		c := c
		if !c.idle() {
			continue
		}
		op := c.ops[c.pos]
		evs = append(evs, sim.Event{Key: fmt.Sprintf("start %s#%d", op.id, op.attempt), Kind: "start", Apply: func(cl *sim.Cluster) error {
			op.started, op.returned, op.cancelled = true, false, false
			op.cancel = nil
			op.invokeStep = cl.Step
			op.fatalAtInvoke = rr.model[op.party].fatal
			if op.recv {
				v := rr.model[op.party].evaluate(op.ex.full(), op.peers, false)
				if v.ready {
					rr.probes["recv_invoked_when_ready"]++
				} else {
					rr.probes["recv_invoked_before_arrival"]++
				}
				rec := &hRecord{party: op.party, cid: op.ex.full()}
				rec.op.Input = hIn{Kind: "recv", Froms: append([]sim.ID(nil), op.peers...), OpID: fmt.Sprintf("%s#%d", op.id, op.attempt)}
				rec.op.Call = rr.callStamp()
				rr.recvRec[op] = rec
			}
			c.start <- struct{}{}
			return nil
		}})
	}
	// fault events
	for _, op := range rr.ops {
		op := op
		if op.recv && op.started && !op.returned && !op.cancelled && op.cancel != nil && rr.faultKinds["cancel"] {
			evs = append(evs, sim.Event{Key: fmt.Sprintf("cancel %s#%d", op.id, op.attempt), Kind: "cancel", Fault: true, Apply: func(cl *sim.Cluster) error {
				op.cancelled = true
				crec := hRecord{party: op.party, cid: op.ex.full()}
				crec.op.Input = hIn{Kind: "cancel", OpID: fmt.Sprintf("%s#%d", op.id, op.attempt)}
				crec.op.Call, crec.op.Return, crec.op.Output = rr.callStamp(), rr.callStamp(), hOut{}
				rr.hist = append(rr.hist, crec)
				if len(rr.model[op.party].box(op.ex.full()).payloads) > 0 {
					rr.probes["cancel_with_partial_mailbox"]++
				}
				op.cancel()
				return nil
			}})
		}
	}
	for _, id := range rr.ids {
		id := id
		if rr.closed[id] != "" {
			continue
		}
		if rr.faultKinds["close"] {
			evs = append(evs, sim.Event{Key: fmt.Sprintf("close %d", id), Kind: "close", Fault: true, Apply: func(cl *sim.Cluster) error {
				rr.closed[id] = "closed"
				rr.noHist[id] = true
				rr.model[id].fatal = "closed"
				rr.routers[id].Close()
				return nil
			}})
		}
		if rr.faultKinds["terr"] && cl.Net.ReaderWaiting(id) {
			evs = append(evs, sim.Event{Key: fmt.Sprintf("terr %d", id), Kind: "terr", Fault: true, Apply: func(cl *sim.Cluster) error {
				rr.closed[id] = "terr"
				rr.noHist[id] = true
				rr.model[id].fatal = "terr"
				if !cl.Net.FailTransport(id) {
					return fmt.Errorf("no reader to fail at %d", id)
				}
				return nil
			}})
		}
	}
	if rr.faultKinds["conflict"] && rr.conflicts < 2 {
		// a conflicting retransmission of a pending or already delivered original message
		cands := append(cl.Net.Pending(), cl.Net.Delivered()...)
		for _, m := range cands {
			m := m
			if m.Kind != sim.KindOrig || m.Copy != 0 || !cl.Net.ReaderWaiting(m.To) {
				continue
			}
			env, err := decodeEnvelope(m.Bytes)
			if err != nil {
				continue
			}
			key := fmt.Sprintf("conflict %s", m.Key())
			evs = append(evs, sim.Event{Key: key, Kind: "conflict", Fault: true, Msg: nil, Apply: func(cl *sim.Cluster) error {
				rr.conflicts++
				alt := &sim.Msg{From: m.From, To: m.To, Stream: m.Stream, Link: m.Link, Copy: cl.Net.NextCopy(m), Kind: sim.KindConflict,
					Bytes: encodeEnvelope(env.CorrelationID, append(append([]byte(nil), env.Payload...), []byte("|ALTERED")...))}
				cl.Net.Add(alt)
				if err := cl.Net.Hand(alt, false); err != nil {
					return err
				}
				cl.OnHand(cl, alt, "conflict")
				return nil
			}})
		}
	}
	if rr.fine {
		evs = append(evs, fineEvents(rr.fh)...)
	}
	return evs
}

func (rr *routerRun) makeInject(cl *sim.Cluster, r *rand.Rand) *sim.Msg {
	var tos []sim.ID
	for _, id := range rr.ids {
		if cl.Net.ReaderWaiting(id) {
			tos = append(tos, id)
		}
	}
	if len(tos) == 0 {
		return nil
	}
	to := tos[r.IntN(len(tos))]
	x := rr.exch[r.IntN(len(rr.exch))]
	rr.injN++
	m := &sim.Msg{To: to, Kind: sim.KindInject, Link: 1_000_000 + rr.injN}
	var other []sim.ID
	for _, id := range rr.ids {
		if id != to {
			other = append(other, id)
		}
	}
	switch r.IntN(5) {
	case 4: // quorum member outside the exchange whose envelope names a participant as its origin
		var outs []sim.ID
		for _, id := range other {
			in := false
			for _, p := range x.parts {
				if p == id {
					in = true
				}
			}
			if !in {
				outs = append(outs, id)
			}
		}
		if len(outs) == 0 || len(x.parts) == 0 {
			return nil
		}
		m.From = outs[r.IntN(len(outs))]
		victim := x.parts[r.IntN(len(x.parts))]
		// same payload as the plain non-participant injection: two different payloads from one
		// sender under one identifier would be an equivocation made by the simulator itself
		b, err := serde.MarshalCBOR(&envelope{From: uint64(victim), CorrelationID: x.full(), Payload: []byte("FOREIGN-not-a-participant")})
		if err != nil {
			panic(err)
		}
		m.Bytes = b
		rr.probes["inject_forged_envelope_origin"]++
	case 0: // sender outside the quorum, real correlation id
		m.From = 0xFFFF_FFFF_0000 + sim.ID(r.IntN(5))
		m.Bytes = encodeEnvelope(x.full(), []byte("FOREIGN-nonmember"))
		rr.probes["inject_nonmember"]++
	case 1: // member, unknown correlation id
		m.From = other[r.IntN(len(other))]
		m.Bytes = encodeEnvelope(fmt.Sprintf("unknown-%d", rr.injN), []byte("FOREIGN-unknown-cid"))
		rr.probes["inject_unknown_cid"]++
	case 2: // member, real id under a namespace that is not in the plan
		m.From = other[r.IntN(len(other))]
		full := "zz/" + x.full()
		if r.IntN(2) == 0 && len(x.ns) > 0 {
			full = x.cid // namespace stripped
		}
		if rr.byFull[full] != nil {
			return nil
		}
		m.Bytes = encodeEnvelope(full, []byte("FOREIGN-other-namespace"))
		rr.probes["inject_other_namespace"]++
	default: // quorum member that does not take part in the exchange
		var outs []sim.ID
		for _, id := range other {
			in := false
			for _, p := range x.parts {
				if p == id {
					in = true
				}
			}
			if !in {
				outs = append(outs, id)
			}
		}
		if len(outs) == 0 {
			return nil
		}
		m.From = outs[r.IntN(len(outs))]
		m.Bytes = encodeEnvelope(x.full(), []byte("FOREIGN-not-a-participant"))
		rr.probes["inject_nonparticipant"]++
	}
	return m
}

func blamed(err error) []sim.ID {
	return base.GetMaliciousIdentities[sim.ID](err)
}

// invariant runs at every quiescent state.
func (rr *routerRun) invariant(cl *sim.Cluster) error {
	rr.closeDeposits(false)
	if rr.fine {
		return rr.invariantFine(cl)
	}
	for _, c := range rr.clients {
		if c.pos >= len(c.ops) {
			continue
		}
		op := c.ops[c.pos]
		if !op.started {
			continue
		}
		model := rr.model[op.party]
		if !op.returned {
			if !op.recv {
				rr.fail("send-blocked", fmt.Sprintf("SendTo of %s did not return", op.id))
				return errors.New("violation")
			}
			v := model.evaluate(op.ex.full(), op.peers, op.cancelled)
			if v.ready {
				rr.fail("lost-wakeup", fmt.Sprintf("receive %s (cid %q from %v) is blocked at a quiescent state although the mailbox model says it must return (%s)", op.id, op.ex.full(), op.peers, verdictString(v)))
				return errors.New("violation")
			}
			continue
		}
		// the attempt returned during the last step: compare with the model
		op.returnStep = cl.Step
		if op.recv {
			rr.recordReturn(op)
		}
		if !op.recv {
			if op.err != nil {
				rr.fail("send-failed", fmt.Sprintf("SendTo of %s failed: %v", op.id, op.err))
				return errors.New("violation")
			}
			op.done = true
			c.pos++
			continue
		}
		v := model.evaluate(op.ex.full(), op.peers, op.cancelled)
		if !v.ready {
			rr.fail("spurious-return", fmt.Sprintf("receive %s returned (err=%v, %d payloads) although neither complete, poisoned, failed nor cancelled in the model", op.id, op.err, len(op.result)))
			return errors.New("violation")
		}
		if (v.ok || v.reason == "poison") && op.err != nil && op.fatalAtInvoke != "" && !errs.Is(op.err, network.ErrDuplicateMessage) {
			// Documented: a latched failure is returned to every subsequent
			// ReceiveFrom. The property is silent on receives invoked on a router
			// that already failed, so failing with that very error is accepted
			// (and so is delivering the complete set).
			v = refVerdict{ready: true, reason: "fatal:" + op.fatalAtInvoke}
			rr.probes["recv_on_failed_router_with_complete_set"]++
		}
		if v.ok {
			if op.err != nil {
				rr.fail("complete-set-not-delivered", fmt.Sprintf("receive %s failed with %v although every requested payload had arrived (lost data)", op.id, op.err))
				return errors.New("violation")
			}
			if len(op.result) != len(op.peers) {
				rr.fail("wrong-sender-set", fmt.Sprintf("receive %s returned %d payloads for %d requested senders", op.id, len(op.result), len(op.peers)))
				return errors.New("violation")
			}
			for _, f := range op.peers {
				got, ok := op.result[f]
				if !ok {
					rr.fail("wrong-sender-set", fmt.Sprintf("receive %s: no payload for requested sender %d", op.id, f))
					return errors.New("violation")
				}
				if !bytes.Equal(got, v.payloads[f]) {
					rr.fail("wrong-payload", fmt.Sprintf("receive %s: payload for sender %d is %q, model (first arrival under %q) has %q", op.id, f, trunc(got), op.ex.full(), trunc(v.payloads[f])))
					return errors.New("violation")
				}
				if rr.conflicts == 0 {
					want := rPayload(f, op.party, op.ex.full(), padOf(got))
					if !bytes.Equal(got, want) {
						rr.fail("unattributable-payload", fmt.Sprintf("receive %s: payload %q is not what %d sent to %d under %q", op.id, trunc(got), f, op.party, op.ex.full()))
						return errors.New("violation")
					}
				}
			}
			model.consume(op.ex.full(), op.peers)
			if op.attempt > 0 {
				rr.probes["retry_after_cancel_completed"]++
			}
			rr.probes["recv_ok"]++
			op.done = true
			c.pos++
			continue
		}
		// the model says: must fail
		if op.err == nil {
			rr.fail("should-have-failed", fmt.Sprintf("receive %s succeeded although the model says %s", op.id, verdictString(v)))
			return errors.New("violation")
		}
		switch v.reason {
		case "poison":
			if !errs.Is(op.err, network.ErrDuplicateMessage) {
				rr.fail("conflict-not-reported", fmt.Sprintf("receive %s: conflicting retransmission from %v must fail the receive as a duplicate-message error, got %v", op.id, v.blame, op.err))
				return errors.New("violation")
			}
			bl := blamed(op.err)
			if len(bl) != 1 || !v.blame[bl[0]] {
				rr.fail("wrong-blame", fmt.Sprintf("receive %s: conflicting senders are %v, blamed %v", op.id, v.blame, bl))
				return errors.New("violation")
			}
			rr.probes["conflict_poisoned_receive"]++
			op.done = true
			c.pos++
		case "fatal:closed":
			if !errs.Is(op.err, network.ErrRouterClosed) {
				rr.fail("wrong-error", fmt.Sprintf("receive %s after Close: %v", op.id, op.err))
				return errors.New("violation")
			}
			rr.probes["recv_failed_closed"]++
			op.done = true
			c.pos++
		case "fatal:terr":
			if !errors.Is(op.err, sim.ErrInjectedTransport) && !strings.Contains(op.err.Error(), sim.ErrInjectedTransport.Error()) {
				rr.fail("wrong-error", fmt.Sprintf("receive %s after transport failure: %v", op.id, op.err))
				return errors.New("violation")
			}
			rr.probes["recv_failed_transport"]++
			op.done = true
			c.pos++
		case "cancelled":
			if !errors.Is(op.err, context.Canceled) && !strings.Contains(op.err.Error(), context.Canceled.Error()) {
				rr.fail("wrong-error", fmt.Sprintf("cancelled receive %s: %v", op.id, op.err))
				return errors.New("violation")
			}
			if len(blamed(op.err)) != 0 {
				rr.fail("wrong-blame", fmt.Sprintf("cancelled receive %s blames %v", op.id, blamed(op.err)))
				return errors.New("violation")
			}
			rr.probes["recv_cancelled"]++
			// retry with the same arguments
			op.attempt++
			op.started = false
		}
	}
	return nil
}

func padOf(b []byte) int {
	i := bytes.LastIndexByte(b, '|')
	if i < 0 {
		return 0
	}
	return len(b) - i - 1
}

func trunc(b []byte) string {
	if len(b) > 60 {
		return string(b[:60]) + "..."
	}
	return string(b)
}

func verdictString(v refVerdict) string {
	if v.ok {
		return "complete set available"
	}
	if v.reason == "poison" {
		return fmt.Sprintf("poisoned by %v", v.blame)
	}
	return v.reason
}

// finalChecks: the run ended quiescent (nothing deliverable, nothing to start).
func (rr *routerRun) finalChecks() {
	// Every blocked receive was already shown to be legitimately blocked by the
	// invariant. Liveness: when nothing was closed/failed/poisoned, every
	// operation must have completed (all messages were deliverable).
	bad := len(rr.closed) > 0 || rr.conflicts > 0
	for _, op := range rr.ops {
		if op.done {
			continue
		}
		if !bad {
			rr.fail("not-completed", fmt.Sprintf("operation %s (started=%v returned=%v attempt=%d) never completed although no router failed and all messages were deliverable (pending=%d) trace=%v", op.id, op.started, op.returned, op.attempt, len(rr.cl.Net.Pending()), rr.cl.Trace))
			return
		}
		rr.probes["blocked_legitimately_at_end"]++
	}
}

// invariantFine is the fine-step oracle. Deposits and receives overlap here,
// so per-operation comparison with an eagerly updated model is not sound; the
// checks are: (1) direct exactness of every returned payload, (2) every
// failure has a cause in the trace, (3) at a fully quiescent state (no task
// parked at a scheduling point, so no wake-up can still be on its way) no
// receive is blocked whose set is complete, (4) the history oracle afterwards.
func (rr *routerRun) invariantFine(cl *sim.Cluster) error {
	for _, c := range rr.clients {
		if c.pos >= len(c.ops) {
			continue
		}
		op := c.ops[c.pos]
		if !op.started || !op.returned {
			continue
		}
		op.returnStep = cl.Step
		if !op.recv {
			if op.err != nil {
				rr.fail("send-failed", fmt.Sprintf("SendTo of %s failed: %v", op.id, op.err))
				return errors.New("violation")
			}
			op.done = true
			c.pos++
			continue
		}
		rr.recordReturn(op)
		model := rr.model[op.party]
		if op.err == nil {
			if len(op.result) != len(op.peers) {
				rr.fail("wrong-sender-set", fmt.Sprintf("receive %s returned %d payloads for %d requested senders", op.id, len(op.result), len(op.peers)))
				return errors.New("violation")
			}
			for _, f := range op.peers {
				got, ok := op.result[f]
				if !ok {
					rr.fail("wrong-sender-set", fmt.Sprintf("receive %s: no payload for requested sender %d", op.id, f))
					return errors.New("violation")
				}
				if rr.conflicts == 0 {
					want := rPayload(f, op.party, op.ex.full(), padOf(got))
					if !bytes.Equal(got, want) {
						rr.fail("unattributable-payload", fmt.Sprintf("receive %s: payload %q is not what %d sent to %d under %q", op.id, trunc(got), f, op.party, op.ex.full()))
						return errors.New("violation")
					}
				}
			}
			// Deposits and receives overlap in fine-step mode. The eager model applied a
			// conflicting deposit at hand-over time; a receive that nevertheless returned
			// the sender's first payload was linearised before that deposit, which the
			// router then stored as a fresh payload. Re-align the model with the observed
			// order (the history oracle judges whether the observed outcome is legal).
			bx := model.box(op.ex.full())
			model.consume(op.ex.full(), op.peers)
			for _, f := range op.peers {
				if bx.poisonBy[f] {
					delete(bx.poisonBy, f)
					bx.payloads[f] = bx.alt[f]
					rr.probes["model_realigned_consume_before_conflict"]++
				}
			}
			if len(bx.poisonBy) == 0 {
				bx.poisoned = false
			}
			if op.attempt > 0 {
				rr.probes["retry_after_cancel_completed"]++
			}
			rr.probes["recv_ok"]++
			op.done = true
			c.pos++
			continue
		}
		switch {
		case errs.Is(op.err, network.ErrDuplicateMessage):
			if rr.conflicts == 0 {
				rr.fail("spurious-duplicate-error", fmt.Sprintf("receive %s failed with a duplicate-message error although no conflicting message was ever sent: %v", op.id, op.err))
				return errors.New("violation")
			}
			rr.probes["conflict_poisoned_receive"]++
			op.done = true
			c.pos++
		case errors.Is(op.err, context.Canceled) || strings.Contains(op.err.Error(), context.Canceled.Error()):
			if !op.cancelled {
				rr.fail("spurious-cancel", fmt.Sprintf("receive %s returned a cancellation error although its context was never cancelled", op.id))
				return errors.New("violation")
			}
			rr.probes["recv_cancelled"]++
			op.attempt++
			op.started = false
		default:
			rr.fail("unexplained-error", fmt.Sprintf("receive %s failed with %v although the router never failed", op.id, op.err))
			return errors.New("violation")
		}
	}
	if fineParked(rr.fh) == 0 {
		rr.probes["fully_quiescent_states"]++
		for _, c := range rr.clients {
			if c.pos >= len(c.ops) {
				continue
			}
			op := c.ops[c.pos]
			if !op.started || op.returned || !op.recv {
				continue
			}
			if v := rr.model[op.party].evaluate(op.ex.full(), op.peers, op.cancelled); v.ready {
				rr.fail("lost-wakeup", fmt.Sprintf("receive %s (cid %q from %v) is blocked in its select at a fully quiescent state (no task at a scheduling point) although it must return (%s); tasks: %s; trace tail: %v", op.id, op.ex.full(), op.peers, verdictString(v), fineDump(rr.fh), tailStr(cl.Trace, 12)))
				return errors.New("violation")
			}
		}
	}
	return nil
}

func tailStr(s []string, n int) []string {
	if len(s) > n {
		return s[len(s)-n:]
	}
	return s
}
