package checks

import "verif/harness"

// C11Workloads lists the simulated-run families that decide C11.
func C11Workloads() []harness.Workload {
	return []harness.Workload{
		{Name: "router-macro", Quick: 20000, Thorough: 1000000, Run: RunRouterMacro},
	}
}
