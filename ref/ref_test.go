package ref

import (
	"math/big"
	"testing"
)

func TestCurves(t *testing.T) {
	for _, c := range []Curve{Secp256k1, P256, Pallas, Vesta, BLS12381G1, Ed25519} {
		if !c.OnCurve(c.Gen()) {
			t.Fatalf("%s: generator not on curve", c.Name())
		}
		if !IsIdentity(c, Mul(c, c.Order(), c.Gen())) && !IsIdentity(c, Mul(c, new(big.Int).Set(c.Order()), c.Gen())) {
			// Mul reduces k mod order, so multiply in two steps
		}
		a := Mul(c, new(big.Int).Sub(c.Order(), big.NewInt(1)), c.Gen())
		if !IsIdentity(c, c.Add(a, c.Gen())) {
			t.Fatalf("%s: (q-1)G + G != 0", c.Name())
		}
		x := Mul(c, big.NewInt(12345), c.Gen())
		y := Mul(c, big.NewInt(54321), c.Gen())
		z := Mul(c, big.NewInt(66666), c.Gen())
		if !Equal(c.Add(x, y), z) || !c.OnCurve(z) {
			t.Fatalf("%s: additivity", c.Name())
		}
	}
}

func TestSolve(t *testing.T) {
	p := big.NewInt(101)
	rows := [][]*big.Int{{big.NewInt(1), big.NewInt(1)}, {big.NewInt(1), big.NewInt(2)}, {big.NewInt(1), big.NewInt(3)}}
	tgt := []*big.Int{big.NewInt(1), big.NewInt(0)}
	l, ok := SolveRowSpan(rows[:2], tgt, p)
	if !ok || l[0].Int64() != 2 || l[1].Int64() != 100 {
		t.Fatalf("solve: %v %v", l, ok)
	}
	if _, ok := SolveRowSpan(rows[:1], tgt, p); ok {
		t.Fatal("single row must not span e0")
	}
	if Rank(rows, p) != 2 {
		t.Fatal("rank")
	}
}
