package checks

import "verif/harness"

// C10Workloads lists the simulated-run families that decide C10.
func C10Workloads() []harness.Workload {
	return []harness.Workload{
		{Name: "session-runner", Quick: 300, Thorough: 30000, Run: RunSessionHonest},
	}
}
