package checks

import (
	"bytes"
	"context"
	"crypto/sha256"
	"crypto/sha3"
	"crypto/sha512"
	"fmt"
	"hash"
	"math/big"
	"math/rand/v2"
	"testing"
	"testing/synctest"

	"github.com/bronlabs/bron-crypto/pkg/base/algebra"
	"github.com/bronlabs/bron-crypto/pkg/mpc"
	"github.com/bronlabs/bron-crypto/pkg/mpc/dkg/trusteddealer"
	"github.com/bronlabs/bron-crypto/pkg/mpc/session"
	"github.com/bronlabs/bron-crypto/pkg/mpc/sharing/scheme/kw"
	"github.com/bronlabs/bron-crypto/pkg/network"
	"github.com/bronlabs/bron-crypto/pkg/proofs/sigma/compiler"

	"verif/harness"
	"verif/sim"
)

// signSession is one signing session planned for a run.
type signSession struct {
	name   string
	quorum []sim.ID
	msg    []byte
}

func drawMessage(w *rand.Rand) []byte {
	switch w.IntN(5) {
	case 0:
		return []byte{}
	case 1:
		return []byte{byte(w.IntN(256))}
	case 2:
		b := make([]byte, 32)
		for i := range b {
			b[i] = byte(w.IntN(256))
		}
		return b
	case 3:
		b := make([]byte, 1024)
		for i := range b {
			b[i] = byte(w.IntN(256))
		}
		return b
	default:
		return []byte(fmt.Sprintf("message-%d", w.Uint64()))
	}
}

// drawHash picks the message digest of an ECDSA suite: the suites accept any
// hash, and digests shorter or longer than the group order take different
// paths in the digest-to-scalar conversion. The first runs of a batch walk
// through the list (so that even a small quick batch meets a short and a long
// digest), later ones draw.
func drawHash(w *rand.Rand, index uint64) (string, func() hash.Hash) {
	k := w.IntN(10)
	if index < 6 {
		k = int(index)
	}
	switch k {
	case 1:
		return "sha224", sha256.New224
	case 2:
		return "sha512", sha512.New
	case 3:
		return "sha512_224", sha512.New512_224
	case 4:
		return "sha384", sha512.New384
	case 5:
		return "sha3_256", func() hash.Hash { return sha3.New256() }
	default:
		return "sha256", sha256.New
	}
}


// drawQuorum picks a qualified signing quorum: minimal, minimal plus extra
// members, or all holders.
func drawQuorum(w *rand.Rand, spec *acSpec, twoOnly bool, probes map[string]int) []sim.ID {
	minimal, _ := spec.qualifiedSets()
	if twoOnly {
		var two [][]sim.ID
		for _, q := range minimal {
			if len(q) == 2 {
				two = append(two, q)
			}
		}
		if len(two) == 0 {
			return nil
		}
		return two[w.IntN(len(two))]
	}
	q := append([]sim.ID(nil), minimal[w.IntN(len(minimal))]...)
	switch w.IntN(4) {
	case 0:
		probes["quorum_all_holders"]++
		return append([]sim.ID(nil), spec.ids...)
	case 1:
		in := idSet(q)
		for _, id := range spec.ids {
			if !in[id] && w.IntN(2) == 0 {
				q = append(q, id)
			}
		}
		if len(q) > len(in) {
			probes["quorum_non_minimal"]++
		}
		return sortedIDs(q)
	}
	if len(q) < 2 {
		return nil
	}
	probes["quorum_minimal"]++
	return q
}

// signScript: (wait for the key) -> session among the quorum -> cosign.
func signScript[G algebra.PrimeGroupElement[G, S], S algebra.PrimeFieldElement[S]](
	fl *signFlavor[G, S], ss signSession, id sim.ID, comp compiler.Name, seed sim.Seed,
	shardOf func(ctx context.Context) (*mpc.BaseShard[G, S], error),
	ctxOf ...func(ctx context.Context) (*session.Context, error),
) script {
	return script{name: fmt.Sprintf("%s@%d", ss.name, id), party: id, fn: func(ctx context.Context, rt *network.Router) (any, error) {
		shard, err := shardOf(ctx)
		if err != nil {
			return nil, err
		}
		rnd := sim.NewRand(seed.Sub(fmt.Sprintf("rand/%d/%s", id, ss.name)))
		var sctx *session.Context
		if len(ctxOf) > 0 && ctxOf[0] != nil {
			// the signing context is a sub-context of a longer-lived session among all holders
			if sctx, err = ctxOf[0](ctx); err != nil {
				return nil, err
			}
		} else {
			sr, err := session.NewSessionRunner(id, quorumOf(ss.quorum), rnd)
			if err != nil {
				return nil, err
			}
			if sctx, err = sr.Run(ctx, rt.Namespaced(ss.name+"-sess"), nil); err != nil {
				return nil, err
			}
		}
		return fl.sign(ctx, rt.Namespaced(ss.name+"-sign"), sctx, shard, comp, ss.msg, rnd)
	}}
}

// judgeSignature is the C01 oracle for one completed signing session.
func judgeSignature[G algebra.PrimeGroupElement[G, S], S algebra.PrimeFieldElement[S]](
	fl *signFlavor[G, S], ss signSession, shards map[sim.ID]*mpc.BaseShard[G, S], partials map[sim.ID]any, seed sim.Seed, probes map[string]int,
) (wire []byte, sigObj any, viol *harness.Violation) {
	fail := func(class, f string, a ...any) ([]byte, any, *harness.Violation) {
		return nil, nil, &harness.Violation{Class: class, Site: fl.name, Detail: fmt.Sprintf(f, a...)}
	}
	// every member of the quorum aggregates on its own, plus one non-cosigning aggregator
	aggregators := append([]sim.ID(nil), ss.quorum...)
	var outsider sim.ID
	for id := range shards {
		if !idSet(ss.quorum)[id] && (outsider == 0 || id < outsider) {
			outsider = id
		}
	}
	if outsider != 0 {
		aggregators = append(aggregators, outsider)
		probes["non_cosigning_aggregator"]++
	}
	for i, a := range aggregators {
		wi, so, err := fl.aggregate(shards[a], partials, ss.msg, sim.NewRand(seed.Sub(fmt.Sprintf("rand/agg/%d", a))))
		if err != nil {
			return fail("aggregate-error", "aggregation at %d failed in an all-honest run: %v", a, oneLineErr(err))
		}
		if i == 0 {
			wire, sigObj = wi, so
		} else if !bytes.Equal(wire, wi) {
			return fail("aggregators-disagree", "aggregators %d and %d obtain different signatures", aggregators[0], a)
		}
	}
	pk := shards[ss.quorum[0]].PublicKeyValue()
	if err := fl.libVerify(pk, ss.msg, sigObj); err != nil {
		return fail("library-verifier-rejects", "the library's single-party verifier rejects the threshold signature: %v", oneLineErr(err))
	}
	if fl.refVerify != nil {
		if err := fl.refVerify(pk, ss.msg, sigObj); err != nil {
			return fail("independent-verifier-rejects", "the independent verifier rejects the signature over quorum %v: %v", ss.quorum, err)
		}
		// "for exactly that message"
		other := append([]byte(nil), ss.msg...)
		if len(other) == 0 {
			// not {0}: Mina's Poseidon sponge zero-pads its input, so the empty bit string and
			// a string of zero bits are the same random-oracle input by design of that scheme
			other = []byte{0xA5}
		} else {
			other[len(other)/2] ^= 1
		}
		if err := fl.refVerify(pk, other, sigObj); err == nil {
			return fail("verifies-for-other-message", "the signature also verifies for a different message")
		}
		probes["independent_verifications"]++
	} else {
		probes["semi_independent_verifications"]++
	}
	return wire, sigObj, nil
}

func runSignWith[G algebra.PrimeGroupElement[G, S], S algebra.PrimeFieldElement[S]](rc *harness.RunCtx, fl *signFlavor[G, S], heavy bool) harness.Outcome {
	kit := fl.kit
	if err := selfCheckKit(kit); err != nil {
		return harness.Outcome{HarnessErr: err}
	}
	w := rc.Seed.Sub("workload").Rand()
	probes := map[string]int{}
	n := 2 + w.IntN(4)
	if heavy && n > 3 {
		n = 3
	}
	var spec *acSpec
	var quorum []sim.ID
	for tries := 0; ; tries++ {
		var err error
		kind := rc.Params["kind"]
		if fl.twoPartyOnly && tries > 3 {
			kind = "threshold"
		}
		spec, err = genAccess(w, n, kind)
		if err != nil {
			return harness.Outcome{Violation: &harness.Violation{Class: "policy-refused", Site: "accessstructures", Detail: err.Error()}}
		}
		if spec.expectRefusal != "" {
			if _, err := kw.NewScheme(kit.sf(), spec.lib); err != nil {
				return harness.Outcome{Skipped: true, Class: fl.name + " refused-hierarchical", Probes: map[string]int{"refused_interleaved_hierarchical_layout": 1}}
			}
			probes["accepted_layout_documented_as_unsupported"]++
		} else if refusedByDesign(kit, spec) {
			return harness.Outcome{Skipped: true, Class: fl.name + " refused-hierarchical", Probes: map[string]int{"refused_hierarchical_layout": 1}}
		}
		quorum = drawQuorum(w, spec, fl.twoPartyOnly, probes)
		if quorum != nil {
			break
		}
		if tries > 20 {
			return harness.Outcome{HarnessErr: fmt.Errorf("no admissible quorum for %s", fl.name)}
		}
	}
	keySource := "dealer"
	if !heavy {
		switch w.IntN(6) {
		case 0:
			keySource = "gennaro"
		case 1:
			keySource = "canetti"
		}
	}
	comp := niCompilers[w.IntN(len(niCompilers))]
	drawMsg := func() []byte {
		m := drawMessage(w)
		for fl.nonEmptyMsg && len(m) == 0 {
			m = drawMessage(w)
		}
		return m
	}
	sessions := []signSession{{name: "S1", quorum: quorum, msg: drawMsg()}}
	if !heavy && w.IntN(3) == 0 {
		q2 := drawQuorum(w, spec, fl.twoPartyOnly, probes)
		if q2 != nil {
			sessions = append(sessions, signSession{name: "S2", quorum: q2, msg: drawMsg()})
			probes["concurrent_signing_sessions"]++
		}
	}
	class := fmt.Sprintf("sign=%s ac=%s n=%d |Q|=%d key=%s comp=%s sessions=%d", fl.name, spec.kind, n, len(quorum), keySource, comp, len(sessions))

	pr := newProtoRun(rc, spec.ids, true)
	shards := map[sim.ID]*mpc.BaseShard[G, S]{}
	ready := map[sim.ID]chan struct{}{}
	var dkgErr error
	if keySource == "dealer" {
		out, err := trusteddealer.Deal(kit.group, spec.lib, sim.NewRand(rc.Seed.Sub("rand/dealer")))
		if err != nil {
			pr.finish()
			return harness.Outcome{Violation: &harness.Violation{Class: "honest-run-error", Site: "trusteddealer", Detail: oneLineErr(err)}, Class: class}
		}
		for id, sh := range out.Iter() {
			shards[id] = sh
		}
	} else {
		for _, id := range spec.ids {
			id := id
			ready[id] = make(chan struct{})
			rnd := sim.NewRand(rc.Seed.Sub(fmt.Sprintf("rand/%d/K", id)))
			inner := dkgScript(fmt.Sprintf("K@%d", id), id, spec, kit, keySource, comp, "K", rnd)
			pr.start(script{name: inner.name, party: id, fn: func(ctx context.Context, rt *network.Router) (any, error) {
				o, err := inner.fn(ctx, rt)
				if err == nil {
					shards[id] = o.(*mpc.BaseShard[G, S])
				} else {
					dkgErr = err
				}
				close(ready[id])
				return o, err
			}})
		}
	}
	// context source: a fresh session per signing session, or sub-contexts of one
	// parent session among all holders, derived by every party in its own order
	// (and sometimes after deriving a context for a session that never starts)
	subMode := !fl.twoPartyOnly && w.IntN(3) == 0
	parentReady := map[sim.ID]chan struct{}{}
	subCtx := map[sim.ID]map[string]*session.Context{}
	var parentErr error
	if subMode {
		probes["signing_context_from_subcontext"]++
		class += " ctx=sub"
		orderSeed := rc.Seed.Sub("suborder")
		for _, id := range spec.ids {
			id := id
			parentReady[id] = make(chan struct{})
			subCtx[id] = map[string]*session.Context{}
			pr.start(script{name: fmt.Sprintf("P@%d", id), party: id, fn: func(ctx context.Context, rt *network.Router) (any, error) {
				defer close(parentReady[id])
				sr, err := session.NewSessionRunner(id, quorumOf(spec.ids), sim.NewRand(rc.Seed.Sub(fmt.Sprintf("rand/%d/P", id))))
				if err != nil {
					parentErr = err
					return nil, err
				}
				pctx, err := sr.Run(ctx, rt.Namespaced("P-sess"), nil)
				if err != nil {
					parentErr = err
					return nil, err
				}
				ow := orderSeed.Sub(fmt.Sprint(id)).Rand()
				var mine []signSession
				for _, ss := range sessions {
					if idSet(ss.quorum)[id] {
						mine = append(mine, ss)
					}
				}
				ow.Shuffle(len(mine), func(a, b int) { mine[a], mine[b] = mine[b], mine[a] })
				if ow.IntN(2) == 0 && len(mine) > 0 {
					// a context prepared for a session that never starts
					_, _ = pctx.SubContext(quorumOf(mine[0].quorum))
				}
				for _, ss := range mine {
					sc, err := pctx.SubContext(quorumOf(ss.quorum))
					if err != nil {
						parentErr = err
						return nil, err
					}
					subCtx[id][ss.name] = sc
				}
				return pctx, nil
			}})
		}
	}
	for _, ss := range sessions {
		ss := ss
		for _, id := range ss.quorum {
			id := id
			var ctxOf func(ctx context.Context) (*session.Context, error)
			if subMode {
				ctxOf = func(ctx context.Context) (*session.Context, error) {
					select {
					case <-parentReady[id]:
					case <-ctx.Done():
						return nil, ctx.Err()
					}
					if subCtx[id][ss.name] == nil {
						return nil, fmt.Errorf("no signing context: %v", parentErr)
					}
					return subCtx[id][ss.name], nil
				}
			}
			pr.start(signScript(fl, ss, id, comp, rc.Seed, func(ctx context.Context) (*mpc.BaseShard[G, S], error) {
				if ch, ok := ready[id]; ok {
					select {
					case <-ch:
					case <-ctx.Done():
						return nil, ctx.Err()
					}
					if shards[id] == nil {
						return nil, fmt.Errorf("no key: %v", dkgErr)
					}
				}
				return shards[id], nil
			}, ctxOf))
		}
	}
	if err := pr.run(); err != nil {
		pr.finish()
		return harness.Outcome{HarnessErr: err}
	}
	viol := pr.firstFailure(fl.name)
	if viol == nil {
		viol = pr.livenessViolation(fl.name)
	}
	pr.finish()
	for k, v := range pr.probes {
		probes[k] += v
	}
	class += " " + pr.netClass()
	var wires [][]byte
	if viol == nil {
		for _, ss := range sessions {
			partials := map[sim.ID]any{}
			for _, id := range ss.quorum {
				o, _ := pr.tasks[fmt.Sprintf("%s@%d", ss.name, id)].Result()
				partials[id] = o
			}
			wire, sigObj, v := judgeSignature(fl, ss, shards, partials, rc.Seed.Sub(ss.name), probes)
			if v != nil {
				viol = v
				break
			}
			wires = append(wires, wire)
			if fl.omni != nil {
				// reconstruct the secret from the quorum's shares with the reference solver
				md, err := extractMSP(shards[ss.quorum[0]].MSP())
				if err != nil {
					viol = &harness.Violation{Class: "msp-extract", Site: fl.name, Detail: err.Error()}
					break
				}
				comps := map[sim.ID][]*big.Int{}
				for _, id := range ss.quorum {
					comps[id] = shareComponents(shards[id].Share())
				}
				x, ok, err := md.reconstruct(ss.quorum, comps)
				if err != nil || !ok {
					viol = &harness.Violation{Class: "reference-reconstruction-failed", Site: fl.name, Detail: fmt.Sprintf("quorum %v: %v", ss.quorum, err)}
					break
				}
				if err := fl.omni(x, shards[ss.quorum[0]].PublicKeyValue(), ss.msg, sigObj); err != nil {
					viol = &harness.Violation{Class: "omniscient-check-failed", Site: fl.name, Detail: err.Error()}
					break
				}
				probes["omniscient_checks"]++
			}
		}
	}
	if spec.nonIdeal {
		probes["non_ideal_structure"]++
	}
	probes["family_"+spec.kind]++
	probes["keysource_"+keySource]++
	sample := map[string]any{"workload": "sign", "config": class, "policy": spec.desc, "quorum": quorum, "msg_len": len(sessions[0].msg), "trace_head": head(pr.cl.Trace, 8), "steps": pr.cl.Stats.Steps}
	if len(wires) > 0 {
		sample["signature_hex"] = fmt.Sprintf("%x", wires[0])
	}
	dig := ""
	for _, wv := range wires {
		dig += fmt.Sprintf("%x|", wv)
	}
	return harness.Outcome{Violation: viol, Class: class, NonTrivial: pr.nontrivial(), Trace: pr.cl.Trace, Stats: pr.cl.Stats, Probes: probes, Sample: sample, Digest: dig}
}

func runSignFlavor(rc *harness.RunCtx, name string) (out harness.Outcome) {
	synctest.Test(rc.T, func(t *testing.T) {
		w := rc.Seed.Sub("flavor").Rand()
		switch name {
		case "lindell22-bip340":
			out = runSignWith(rc, flavorL22BIP340(), false)
		case "lindell22-schnorr-k256":
			out = runSignWith(rc, flavorL22Vanilla(kitK256(), "sha256", sha256.New, w.IntN(2) == 0, w.IntN(2) == 0), false)
		case "lindell22-schnorr-p256":
			out = runSignWith(rc, flavorL22Vanilla(kitP256(), "sha256", sha256.New, w.IntN(2) == 0, w.IntN(2) == 0), false)
		case "lindell22-schnorr-ed25519":
			if w.IntN(2) == 0 {
				out = runSignWith(rc, flavorL22Vanilla(kitEd25519(), "sha512", sha512.New, false, true), false)
			} else {
				out = runSignWith(rc, flavorL22Vanilla(kitEd25519(), "sha512", sha512.New, w.IntN(2) == 0, w.IntN(2) == 0), false)
			}
		case "dkls23-bbot-k256":
			hn, hf := drawHash(w, rc.Index)
			out = runSignWith(rc, flavorDKLs23(kitK256(), ecdsaK256(), "bbot", hn, hf), true)
		case "dkls23-bbot-p256":
			hn, hf := drawHash(w, rc.Index)
			out = runSignWith(rc, flavorDKLs23(kitP256(), ecdsaP256(), "bbot", hn, hf), true)
		case "dkls23-softspoken-k256":
			hn, hf := drawHash(w, rc.Index)
			out = runSignWith(rc, flavorDKLs23(kitK256(), ecdsaK256(), "softspoken", hn, hf), true)
		case "dkls23-softspoken-p256":
			hn, hf := drawHash(w, rc.Index)
			out = runSignWith(rc, flavorDKLs23(kitP256(), ecdsaP256(), "softspoken", hn, hf), true)
		default:
			out = runSignExtra(rc, name)
		}
	})
	return out
}

func signWorkload(name string, quick, thorough int) harness.Workload {
	return harness.Workload{Name: "sign-" + name, Quick: quick, Thorough: thorough, Run: func(rc *harness.RunCtx) harness.Outcome { return runSignFlavor(rc, name) }}
}

// C01Workloads lists the simulated-run families that decide C01.
func C01Workloads() []harness.Workload {
	return []harness.Workload{
		signWorkload("lindell22-bip340", 16, 2500),
		signWorkload("lindell22-schnorr-k256", 8, 1200),
		signWorkload("lindell22-schnorr-p256", 8, 1200),
		signWorkload("lindell22-schnorr-ed25519", 8, 1200),
		signWorkload("dkls23-bbot-k256", 6, 400),
		signWorkload("dkls23-bbot-p256", 3, 200),
		signWorkload("dkls23-softspoken-k256", 6, 400),
		signWorkload("dkls23-softspoken-p256", 3, 200),
		signWorkload("lindell22-mina", 8, 800),
		{Name: "lockstep-lindell22", Quick: 16, Thorough: 2000, Run: runLockstepFlavor},
		signWorkload("boldyreva-short", 12, 400),
		signWorkload("boldyreva-long", 12, 400),
		signWorkload("lindell17", 4, 120),
		signWorkload("cggmp21", 6, 200),
		signWorkload("cggmp21-dkg", 0, 8),
		signWorkload("lindell17-dkg", 1, 24),
	}
}
