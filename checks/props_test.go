package checks

import (
	"testing"

	"verif/harness"
)

func TestC11(t *testing.T) { harness.Main(t, "C11", C11Workloads()) }
