package sim

import (
	"bytes"
	"fmt"
	"io"
	"testing"

	"golang.org/x/sync/errgroup"
)

// workers read in a forced order; the bytes each worker index gets must not depend on it.
func poolRead(r *Rand, order []int) [][]byte {
	n := len(order)
	out := make([][]byte, n)
	turn := make([]chan struct{}, n)
	for i := range turn {
		turn[i] = make(chan struct{})
	}
	var eg errgroup.Group
	for i := 0; i < n; i++ {
		eg.Go(func() error {
			<-turn[i]
			b := make([]byte, 8)
			_, err := io.ReadFull(r, b)
			out[i] = b
			return err
		})
	}
	go func() {
		for _, k := range order {
			turn[k] <- struct{}{}
		}
	}()
	_ = eg.Wait()
	return out
}

func TestRandWorkerOrderIndependent(t *testing.T) {
	seed := RootSeed(7)
	var ref [][][]byte
	for _, order := range [][]int{{0, 1, 2, 3}, {3, 2, 1, 0}, {2, 0, 3, 1}} {
		r := NewRand(seed)
		head := make([]byte, 5)
		io.ReadFull(r, head)
		a := poolRead(r, order)
		b := poolRead(r, []int{order[3], order[0], order[1], order[2]}) // a second pool of the same parent
		tail := make([]byte, 5)
		io.ReadFull(r, tail)
		cur := [][][]byte{{head}, a, b, {tail}}
		if ref == nil {
			ref = cur
			continue
		}
		if fmt.Sprint(cur) != fmt.Sprint(ref) {
			t.Fatalf("order %v changes the assignment:\n%x\n%x", order, cur, ref)
		}
	}
	if bytes.Equal(ref[1][0], ref[1][1]) || bytes.Equal(ref[1][0], ref[2][0]) {
		t.Fatal("workers share a stream")
	}
}

func TestShortReadsSameBytes(t *testing.T) {
	a, b := NewRand(RootSeed(3)), NewRand(RootSeed(3))
	b.ShortMax = 3
	x, y := make([]byte, 100), make([]byte, 100)
	io.ReadFull(a, x)
	io.ReadFull(b, y)
	if !bytes.Equal(x, y) {
		t.Fatal("short reads change the stream")
	}
}
