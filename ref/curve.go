package ref

import (
	"errors"
	"math/big"
)

// Point is an affine point; Inf marks the neutral element.
type Point struct {
	X, Y *big.Int
	Inf  bool
}

// Curve is the interface of the reference groups.
type Curve interface {
	Name() string
	Order() *big.Int
	Gen() Point
	Add(a, b Point) Point
	Neg(a Point) Point
	OnCurve(a Point) bool
}

// Mul is double-and-add scalar multiplication on any reference curve.
func Mul(c Curve, k *big.Int, p Point) Point {
	k = new(big.Int).Mod(k, c.Order())
	acc := Point{Inf: true}
	if _, ok := c.(*Edwards); ok {
		acc = Point{X: big.NewInt(0), Y: big.NewInt(1)}
	}
	for i := k.BitLen() - 1; i >= 0; i-- {
		acc = c.Add(acc, acc)
		if k.Bit(i) == 1 {
			acc = c.Add(acc, p)
		}
	}
	return acc
}

// Equal compares two points.
func Equal(a, b Point) bool {
	if a.Inf || b.Inf {
		return a.Inf == b.Inf
	}
	return a.X.Cmp(b.X) == 0 && a.Y.Cmp(b.Y) == 0
}

// Weierstrass is y^2 = x^3 + a x + b over F_p.
type Weierstrass struct {
	N          string
	P, A, B, Q *big.Int
	Gx, Gy     *big.Int
}

func hexInt(s string) *big.Int {
	v, ok := new(big.Int).SetString(s, 16)
	if !ok {
		panic("bad hex " + s)
	}
	return v
}

var (
	Secp256k1 = &Weierstrass{N: "secp256k1",
		P: hexInt("FFFFFFFFFFFFFFFFFFFFFFFFFFFFFFFFFFFFFFFFFFFFFFFFFFFFFFFEFFFFFC2F"), A: big.NewInt(0), B: big.NewInt(7),
		Q:  hexInt("FFFFFFFFFFFFFFFFFFFFFFFFFFFFFFFEBAAEDCE6AF48A03BBFD25E8CD0364141"),
		Gx: hexInt("79BE667EF9DCBBAC55A06295CE870B07029BFCDB2DCE28D959F2815B16F81798"),
		Gy: hexInt("483ADA7726A3C4655DA4FBFC0E1108A8FD17B448A68554199C47D08FFB10D4B8")}
	P256 = &Weierstrass{N: "P-256",
		P: hexInt("FFFFFFFF00000001000000000000000000000000FFFFFFFFFFFFFFFFFFFFFFFF"),
		A: hexInt("FFFFFFFF00000001000000000000000000000000FFFFFFFFFFFFFFFFFFFFFFFC"),
		B: hexInt("5AC635D8AA3A93E7B3EBBD55769886BC651D06B0CC53B0F63BCE3C3E27D2604B"),
		Q:  hexInt("FFFFFFFF00000000FFFFFFFFFFFFFFFFBCE6FAADA7179E84F3B9CAC2FC632551"),
		Gx: hexInt("6B17D1F2E12C4247F8BCE6E563A440F277037D812DEB33A0F4A13945D898C296"),
		Gy: hexInt("4FE342E2FE1A7F9B8EE7EB4A7C0F9E162BCE33576B315ECECBB6406837BF51F5")}
	// Pallas: y^2 = x^3 + 5 over Fp, order q; Vesta: the same equation over Fq, order p.
	pastaP = hexInt("40000000000000000000000000000000224698FC094CF91B992D30ED00000001")
	pastaQ = hexInt("40000000000000000000000000000000224698FC0994A8DD8C46EB2100000001")
	Pallas = &Weierstrass{N: "pallas", P: pastaP, A: big.NewInt(0), B: big.NewInt(5), Q: pastaQ,
		Gx: new(big.Int).Sub(pastaP, big.NewInt(1)), Gy: big.NewInt(2)}
	Vesta = &Weierstrass{N: "vesta", P: pastaQ, A: big.NewInt(0), B: big.NewInt(5), Q: pastaP,
		Gx: new(big.Int).Sub(pastaQ, big.NewInt(1)), Gy: big.NewInt(2)}
	// BLS12-381 G1: y^2 = x^3 + 4 over Fp, subgroup order r.
	BLS12381G1 = &Weierstrass{N: "bls12381g1",
		P: hexInt("1a0111ea397fe69a4b1ba7b6434bacd764774b84f38512bf6730d2a0f6b0f6241eabfffeb153ffffb9feffffffffaaab"), A: big.NewInt(0), B: big.NewInt(4),
		Q:  hexInt("73eda753299d7d483339d80809a1d80553bda402fffe5bfeffffffff00000001"),
		Gx: hexInt("17f1d3a73197d7942695638c4fa9ac0fc3688c4f9774b905a14e3a3f171bac586c55e83ff97a1aeffb3af00adb22c6bb"),
		Gy: hexInt("08b3f481e3aaa0f1a09e30ed741d8ae4fcf5e095d5d00af600db18cb2c04b3edd03cc744a2888ae40caa232946c5e7e1")}
)

func (c *Weierstrass) Name() string    { return c.N }
func (c *Weierstrass) Order() *big.Int { return c.Q }
func (c *Weierstrass) Gen() Point      { return Point{X: c.Gx, Y: c.Gy} }
func (c *Weierstrass) Neg(a Point) Point {
	if a.Inf {
		return a
	}
	return Point{X: a.X, Y: mod(new(big.Int).Neg(a.Y), c.P)}
}
func (c *Weierstrass) OnCurve(a Point) bool {
	if a.Inf {
		return true
	}
	if a.X.Sign() < 0 || a.X.Cmp(c.P) >= 0 || a.Y.Sign() < 0 || a.Y.Cmp(c.P) >= 0 {
		return false
	}
	l := mod(new(big.Int).Mul(a.Y, a.Y), c.P)
	r := new(big.Int).Mul(a.X, a.X)
	r.Mul(r, a.X)
	r.Add(r, new(big.Int).Mul(c.A, a.X))
	r.Add(r, c.B)
	return l.Cmp(mod(r, c.P)) == 0
}
func (c *Weierstrass) Add(a, b Point) Point {
	if a.Inf {
		return b
	}
	if b.Inf {
		return a
	}
	var lam *big.Int
	if a.X.Cmp(b.X) == 0 {
		if mod(new(big.Int).Add(a.Y, b.Y), c.P).Sign() == 0 {
			return Point{Inf: true}
		}
		num := new(big.Int).Mul(a.X, a.X)
		num.Mul(num, big.NewInt(3))
		num.Add(num, c.A)
		den := new(big.Int).ModInverse(mod(new(big.Int).Lsh(a.Y, 1), c.P), c.P)
		lam = mod(num.Mul(num, den), c.P)
	} else {
		num := new(big.Int).Sub(b.Y, a.Y)
		den := new(big.Int).ModInverse(mod(new(big.Int).Sub(b.X, a.X), c.P), c.P)
		lam = mod(num.Mul(num, den), c.P)
	}
	x := new(big.Int).Mul(lam, lam)
	x.Sub(x, a.X)
	x.Sub(x, b.X)
	x = mod(x, c.P)
	y := new(big.Int).Sub(a.X, x)
	y.Mul(y, lam)
	y.Sub(y, a.Y)
	return Point{X: x, Y: mod(y, c.P)}
}

// LiftX returns the point with the given x and even y (BIP-340 lift_x); p = 3 mod 4 only.
func (c *Weierstrass) LiftX(x *big.Int) (Point, error) {
	if x.Sign() < 0 || x.Cmp(c.P) >= 0 {
		return Point{}, errors.New("x out of range")
	}
	r := new(big.Int).Mul(x, x)
	r.Mul(r, x)
	r.Add(r, new(big.Int).Mul(c.A, x))
	r.Add(r, c.B)
	r = mod(r, c.P)
	e := new(big.Int).Add(c.P, big.NewInt(1))
	e.Rsh(e, 2)
	y := new(big.Int).Exp(r, e, c.P)
	if mod(new(big.Int).Mul(y, y), c.P).Cmp(r) != 0 {
		return Point{}, errors.New("not a square")
	}
	if y.Bit(0) == 1 {
		y = new(big.Int).Sub(c.P, y)
	}
	return Point{X: new(big.Int).Set(x), Y: y}, nil
}

// Edwards is -x^2 + y^2 = 1 + d x^2 y^2 over F_p (edwards25519).
type Edwards struct {
	P, D, L *big.Int
	Gx, Gy  *big.Int
}

var Ed25519 = func() *Edwards {
	p := new(big.Int).Sub(new(big.Int).Lsh(big.NewInt(1), 255), big.NewInt(19))
	d := new(big.Int).Mul(big.NewInt(-121665), new(big.Int).ModInverse(big.NewInt(121666), p))
	d.Mod(d, p)
	l := new(big.Int).Add(new(big.Int).Lsh(big.NewInt(1), 252), hexInt("14def9dea2f79cd65812631a5cf5d3ed"))
	return &Edwards{P: p, D: d, L: l,
		Gx: hexInt("216936D3CD6E53FEC0A4E231FDD6DC5C692CC7609525A7B2C9562D608F25D51A"),
		Gy: hexInt("6666666666666666666666666666666666666666666666666666666666666658")}
}()

func (c *Edwards) Name() string    { return "edwards25519" }
func (c *Edwards) Order() *big.Int { return c.L }
func (c *Edwards) Gen() Point      { return Point{X: c.Gx, Y: c.Gy} }
func (c *Edwards) Neg(a Point) Point {
	return Point{X: mod(new(big.Int).Neg(a.X), c.P), Y: a.Y}
}
func (c *Edwards) OnCurve(a Point) bool {
	x2 := mod(new(big.Int).Mul(a.X, a.X), c.P)
	y2 := mod(new(big.Int).Mul(a.Y, a.Y), c.P)
	l := mod(new(big.Int).Sub(y2, x2), c.P)
	r := new(big.Int).Mul(x2, y2)
	r.Mul(r, c.D)
	r.Add(r, big.NewInt(1))
	return l.Cmp(mod(r, c.P)) == 0
}
func (c *Edwards) Add(a, b Point) Point {
	if a.Inf {
		a = Point{X: big.NewInt(0), Y: big.NewInt(1)}
	}
	if b.Inf {
		b = Point{X: big.NewInt(0), Y: big.NewInt(1)}
	}
	x1y2 := new(big.Int).Mul(a.X, b.Y)
	y1x2 := new(big.Int).Mul(a.Y, b.X)
	y1y2 := new(big.Int).Mul(a.Y, b.Y)
	x1x2 := new(big.Int).Mul(a.X, b.X)
	dxy := new(big.Int).Mul(x1x2, y1y2)
	dxy.Mul(dxy, c.D)
	dxy.Mod(dxy, c.P)
	xn := new(big.Int).Add(x1y2, y1x2)
	xd := new(big.Int).ModInverse(mod(new(big.Int).Add(big.NewInt(1), dxy), c.P), c.P)
	yn := new(big.Int).Add(y1y2, x1x2) // a = -1
	yd := new(big.Int).ModInverse(mod(new(big.Int).Sub(big.NewInt(1), dxy), c.P), c.P)
	return Point{X: mod(xn.Mul(xn, xd), c.P), Y: mod(yn.Mul(yn, yd), c.P)}
}

// IsIdentity reports the neutral element for either curve form.
func IsIdentity(c Curve, a Point) bool {
	if _, ok := c.(*Edwards); ok {
		return !a.Inf && a.X.Sign() == 0 && a.Y.Cmp(big.NewInt(1)) == 0 || a.Inf
	}
	return a.Inf
}

// EdDecode decodes the 32-byte little-endian y|sign encoding.
func (c *Edwards) EdDecode(b []byte) (Point, error) {
	if len(b) != 32 {
		return Point{}, errors.New("bad length")
	}
	le := make([]byte, 32)
	for i := range b {
		le[31-i] = b[i]
	}
	sign := le[0] >> 7
	le[0] &= 0x7f
	y := new(big.Int).SetBytes(le)
	if y.Cmp(c.P) >= 0 {
		return Point{}, errors.New("non-canonical y")
	}
	y2 := mod(new(big.Int).Mul(y, y), c.P)
	u := mod(new(big.Int).Sub(y2, big.NewInt(1)), c.P)
	v := mod(new(big.Int).Add(new(big.Int).Mul(c.D, y2), big.NewInt(1)), c.P)
	x2 := mod(new(big.Int).Mul(u, new(big.Int).ModInverse(v, c.P)), c.P)
	// sqrt: p = 5 mod 8
	e := new(big.Int).Add(c.P, big.NewInt(3))
	e.Rsh(e, 3)
	x := new(big.Int).Exp(x2, e, c.P)
	if mod(new(big.Int).Mul(x, x), c.P).Cmp(x2) != 0 {
		i := new(big.Int).Exp(big.NewInt(2), new(big.Int).Rsh(new(big.Int).Sub(c.P, big.NewInt(1)), 2), c.P)
		x = mod(x.Mul(x, i), c.P)
		if mod(new(big.Int).Mul(x, x), c.P).Cmp(x2) != 0 {
			return Point{}, errors.New("not on curve")
		}
	}
	if x.Sign() == 0 && sign == 1 {
		return Point{}, errors.New("bad sign")
	}
	if uint8(x.Bit(0)) != sign {
		x = new(big.Int).Sub(c.P, x)
	}
	return Point{X: x, Y: y}, nil
}
