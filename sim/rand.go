package sim

import (
	"errors"
	"math/rand/v2"
	"sync"
)

// ErrInjectedRand is returned by a Rand configured to fail.
var ErrInjectedRand = errors.New("sim: injected random source failure")

// Rand is a party's random source (io.Reader). The byte stream is a pure
// function of its seed; the fault modes change how it is handed out, never
// which bytes are consumed.
type Rand struct {
	mu    sync.Mutex
	src   *rand.ChaCha8
	Calls int   // number of Read calls
	Bytes int64 // bytes handed out
	// ShortMax > 0: every Read returns at most 1..ShortMax bytes (legal io.Reader behaviour).
	ShortMax int
	shortRng *rand.Rand
	// FailAt > 0: the FailAt-th Read call (1-based) and every later one returns ErrInjectedRand.
	FailAt int
	Failed bool
}

// NewRand returns a reader keyed by seed.
func NewRand(seed Seed) *Rand {
	return &Rand{src: rand.NewChaCha8(seed), shortRng: seed.Sub("short").Rand()}
}

func (r *Rand) Read(p []byte) (int, error) {
	r.mu.Lock()
	defer r.mu.Unlock()
	r.Calls++
	if r.FailAt > 0 && r.Calls >= r.FailAt {
		r.Failed = true
		return 0, ErrInjectedRand
	}
	if len(p) == 0 {
		return 0, nil
	}
	n := len(p)
	if r.ShortMax > 0 {
		k := 1 + r.shortRng.IntN(r.ShortMax)
		if k < n {
			n = k
		}
	}
	_, _ = r.src.Read(p[:n])
	r.Bytes += int64(n)
	return n, nil
}
