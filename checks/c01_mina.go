package checks

import (
	"context"
	"fmt"
	"io"

	"github.com/bronlabs/bron-crypto/pkg/base/curves/pasta"
	"github.com/bronlabs/bron-crypto/pkg/base/datastructures/hashmap"
	"github.com/bronlabs/bron-crypto/pkg/base/serde"
	"github.com/bronlabs/bron-crypto/pkg/mpc"
	"github.com/bronlabs/bron-crypto/pkg/mpc/session"
	"github.com/bronlabs/bron-crypto/pkg/mpc/signatures/schnorr/lindell22"
	l22keygen "github.com/bronlabs/bron-crypto/pkg/mpc/signatures/schnorr/lindell22/keygen"
	l22signing "github.com/bronlabs/bron-crypto/pkg/mpc/signatures/schnorr/lindell22/signing"
	"github.com/bronlabs/bron-crypto/pkg/network"
	"github.com/bronlabs/bron-crypto/pkg/proofs/sigma/compiler"
	"github.com/bronlabs/bron-crypto/pkg/signatures/schnorrlike/mina"

	"verif/harness"
	"verif/ref"
	"verif/sim"
)

type (
	pallasPoint  = pasta.PallasPoint
	pallasScalar = pasta.FqFieldElement
)

// minaMessage: the signed byte string as a Mina random-oracle input (bits, MSB first).
func minaMessage(msg []byte) *mina.Message {
	m := new(mina.ROInput).Init()
	m.AddString(string(msg))
	return m
}

// flavorL22Mina: Lindell22 threshold Schnorr for the Mina signature scheme
// (Pallas, Poseidon challenge, even-y nonce commitment). No independent
// Poseidon implementation is available: the oracle is the library verifier
// plus a semi-independent one (the challenge from the library's Poseidon, the
// group equation s*G = R + e*PK and the parity of R.y in reference arithmetic).
func flavorL22Mina(nid mina.NetworkID) *signFlavor[*pallasPoint, *pallasScalar] {
	kit := kitPallas()
	f := &signFlavor[*pallasPoint, *pallasScalar]{name: "lindell22/mina-" + string(nid), kit: kit, randomized: true,
		independent: "semi-independent: library verifier + Schnorr relation and nonce parity in reference Pallas arithmetic with the challenge taken from the library's Poseidon"}
	type partial = lindell22.PartialSignature[*pallasPoint, *pallasScalar]
	f.sign = func(ctx context.Context, rt *network.Router, sctx *session.Context, base *mpc.BaseShard[*pallasPoint, *pallasScalar], comp compiler.Name, msg []byte, rnd io.Reader) (any, error) {
		scheme, err := mina.NewRandomisedScheme(nid, rnd)
		if err != nil {
			return nil, err
		}
		shard, err := l22keygen.NewShard(base)
		if err != nil {
			return nil, err
		}
		r, err := l22signing.NewRunner(sctx, shard, comp, scheme.Variant(), minaMessage(msg), rnd)
		if err != nil {
			return nil, err
		}
		return r.Run(ctx, rt, nil)
	}
	f.aggregate = func(base *mpc.BaseShard[*pallasPoint, *pallasScalar], partials map[sim.ID]any, msg []byte, rnd io.Reader) ([]byte, any, error) {
		scheme, err := mina.NewRandomisedScheme(nid, rnd)
		if err != nil {
			return nil, nil, err
		}
		shard, err := l22keygen.NewShard(base)
		if err != nil {
			return nil, nil, err
		}
		agg, err := l22signing.NewAggregator(shard.PublicKeyMaterial(), scheme)
		if err != nil {
			return nil, nil, err
		}
		ps := hashmap.NewComparable[sim.ID, *partial]()
		for id, p := range partials {
			ps.Put(id, p.(*partial))
		}
		sig, err := agg.Aggregate(ps.Freeze(), minaMessage(msg))
		if err != nil {
			return nil, nil, err
		}
		wire, err := mina.SerializeSignature(sig)
		return wire, sig, err
	}
	f.libVerify = func(pk *pallasPoint, msg []byte, sig any) error {
		scheme, err := mina.NewRandomisedScheme(nid, zeroReader{})
		if err != nil {
			return err
		}
		vf, err := scheme.Verifier()
		if err != nil {
			return err
		}
		lpk, err := mina.NewPublicKey(pk)
		if err != nil {
			return err
		}
		// the wire form must round-trip
		wire, err := mina.SerializeSignature(sig.(*mina.Signature))
		if err != nil {
			return err
		}
		back, err := mina.DeserializeSignature(wire)
		if err != nil {
			return fmt.Errorf("serialised signature does not deserialise: %w", err)
		}
		if err := vf.Verify(back, lpk, minaMessage(msg)); err != nil {
			return fmt.Errorf("deserialised signature: %w", err)
		}
		return vf.Verify(sig.(*mina.Signature), lpk, minaMessage(msg))
	}
	f.refVerify = func(pk *pallasPoint, msg []byte, sig any) error {
		s := sig.(*mina.Signature)
		v, err := mina.NewRandomisedVariant(nid, zeroReader{})
		if err != nil {
			return err
		}
		e, err := v.ComputeChallenge(s.R, pk, minaMessage(msg))
		if err != nil {
			return err
		}
		R, err := kit.toRef(s.R)
		if err != nil {
			return err
		}
		P, err := kit.toRef(pk)
		if err != nil {
			return err
		}
		c := kit.refc // after selfCheckKit: reference arithmetic with the library's base point adopted
		if R.Y.Bit(0) != 0 {
			return fmt.Errorf("nonce commitment has odd y")
		}
		lhs := ref.Mul(c, toBig(s.S), c.Gen())
		rhs := c.Add(R, ref.Mul(c, toBig(e), P))
		if !ref.Equal(lhs, rhs) {
			return fmt.Errorf("s*G != R + e*PK in reference Pallas arithmetic")
		}
		return nil
	}
	f.nonce = func(sig any) []byte { return sig.(*mina.Signature).R.Bytes() }
	f.encPartial = func(p any) ([]byte, error) { return serde.MarshalCBOR(p.(*partial)) }
	f.decPartial = func(b []byte) (any, error) { return serde.UnmarshalCBOR[*partial](b) }
	return f
}

func init() {
	extraSignFlavors["lindell22-mina"] = func(rc *harness.RunCtx) harness.Outcome {
		nid := []mina.NetworkID{mina.MainNet, mina.TestNet, mina.NetworkID("verifnet")}[rc.Seed.Sub("nid").U64()%3]
		return runSignWith(rc, flavorL22Mina(nid), false)
	}
}
