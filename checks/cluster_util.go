package checks

import (
	"context"
	"errors"
	"fmt"
	"math/rand/v2"
	"os"
	"sort"
	"strings"
	"testing"
	"testing/cryptotest"

	"github.com/bronlabs/bron-crypto/pkg/base/datastructures/hashset"
	"github.com/bronlabs/bron-crypto/pkg/network"

	"verif/harness"
	"verif/sim"
)

// script is what one task of a party executes (real library code).
type script struct {
	name  string
	party sim.ID
	fn    func(ctx context.Context, rt *network.Router) (any, error)
}

// protoRun is one simulated multi-party run of real protocol code over routers.
type protoRun struct {
	rc      *harness.RunCtx
	cl      *sim.Cluster
	ids     []sim.ID
	routers map[sim.ID]*network.Router
	tasks   map[string]*sim.Task
	probes  map[string]int
	faultKinds []string
	injN    uint64
	cids    []string // correlation ids seen on the wire (for injection material)
}

func quorumOf(ids []sim.ID) network.Quorum {
	return hashset.NewComparable(ids...).Freeze()
}

func sortedIDs(ids []sim.ID) []sim.ID {
	out := append([]sim.ID(nil), ids...)
	sort.Slice(out, func(i, j int) bool { return out[i] < out[j] })
	return out
}

// newProtoRun creates cluster and routers inside the bubble. benign selects
// the swarm of benign network faults (reorder is always on via the policy).
func newProtoRun(rc *harness.RunCtx, ids []sim.ID, benign bool) *protoRun {
	w := rc.Seed.Sub("netcfg").Rand()
	pr := &protoRun{rc: rc, ids: sortedIDs(ids), routers: map[sim.ID]*network.Router{}, tasks: map[string]*sim.Task{}, probes: map[string]int{}}
	cl := sim.NewCluster(rc.Seed, ids)
	pr.cl = cl
	cl.Policy = sim.Policy(w.IntN(6))
	cl.MaxSteps = 200000
	if benign && w.IntN(4) != 0 {
		fm := sim.FaultMix{Budget: 1 + w.IntN(10)}
		if w.IntN(2) == 0 {
			fm.DupRate = 0.05
			pr.faultKinds = append(pr.faultKinds, "dup")
		}
		if w.IntN(2) == 0 {
			fm.RedeliverRate = 0.05
			pr.faultKinds = append(pr.faultKinds, "redeliver")
		}
		if w.IntN(2) == 0 {
			fm.InjectRate = 0.05
			pr.faultKinds = append(pr.faultKinds, "inject")
		}
		cl.Faults = fm
	}
	cl.MakeInject = pr.makeInject
	cl.OnHand = func(_ *sim.Cluster, m *sim.Msg, kind string) {
		if kind != "deliver" || len(pr.cids) > 64 {
			return
		}
		if env, err := decodeEnvelope(m.Bytes); err == nil {
			pr.cids = append(pr.cids, env.CorrelationID)
		}
	}
	cl.Replay = rc.Replay
	for _, id := range pr.ids {
		pr.routers[id] = network.NewRouter(cl.Net.Endpoint(id))
	}
	return pr
}

// makeInject: foreign traffic that an honest run must ignore: garbage from a
// non-member, a well-formed envelope from a member under an unknown id or
// under another namespace.
func (pr *protoRun) makeInject(cl *sim.Cluster, r *rand.Rand) *sim.Msg {
	var tos []sim.ID
	for _, id := range pr.ids {
		if cl.Net.ReaderWaiting(id) {
			tos = append(tos, id)
		}
	}
	if len(tos) == 0 {
		return nil
	}
	to := tos[r.IntN(len(tos))]
	pr.injN++
	m := &sim.Msg{To: to, Kind: sim.KindInject, Link: 1_000_000 + pr.injN}
	var others []sim.ID
	for _, id := range pr.ids {
		if id != to {
			others = append(others, id)
		}
	}
	switch r.IntN(3) {
	case 0:
		m.From = 0xFFFF_FFFF_0000 + sim.ID(r.IntN(3))
		m.Bytes = []byte{0xff, 0x00, 0x13, 0x37} // not even CBOR: must be dropped before decoding
		if len(pr.cids) > 0 && r.IntN(2) == 0 {
			m.Bytes = encodeEnvelope(pr.cids[r.IntN(len(pr.cids))], []byte("foreign"))
		}
		pr.probes["inject_nonmember"]++
	case 1:
		m.From = others[r.IntN(len(others))]
		m.Bytes = encodeEnvelope(fmt.Sprintf("nobody-waits-for-this-%d", pr.injN), []byte("foreign"))
		pr.probes["inject_unknown_cid"]++
	default:
		if len(pr.cids) == 0 {
			return nil
		}
		m.From = others[r.IntN(len(others))]
		m.Bytes = encodeEnvelope("other-namespace/"+pr.cids[r.IntN(len(pr.cids))], []byte("foreign"))
		pr.probes["inject_other_namespace"]++
	}
	return m
}

// start launches a script as a task on its party's router.
func (pr *protoRun) start(s script) *sim.Task {
	rt := pr.routers[s.party]
	t := pr.cl.Go(s.name, s.party, nil, func(ctx context.Context) (any, error) {
		return s.fn(ctx, rt)
	})
	pr.tasks[s.name] = t
	return t
}

// run executes the scheduler loop and returns harness trouble, if any.
func (pr *protoRun) run() error {
	res := pr.cl.Run()
	var ie *sim.InvariantError
	if res.Err != nil && !errors.As(res.Err, &ie) {
		return res.Err
	}
	return nil
}

// finish closes routers and drains the bubble.
func (pr *protoRun) finish() {
	for _, id := range pr.ids {
		pr.routers[id].Close()
	}
	pr.cl.Drain()
}

// livenessViolation: in an honest run every task must have returned once the
// network is quiet; a task still blocked is a liveness violation.
func (pr *protoRun) livenessViolation(site string) *harness.Violation {
	if pr.cl.Stats.CapHit {
		return &harness.Violation{Class: "step-cap", Site: site, Detail: fmt.Sprintf("step cap %d reached", pr.cl.MaxSteps)}
	}
	var blocked []string
	for _, t := range pr.cl.Tasks {
		if !t.Done() {
			blocked = append(blocked, t.Name)
		}
	}
	if len(blocked) == 0 {
		return nil
	}
	sort.Strings(blocked)
	var pend []string
	for _, m := range pr.cl.Net.Pending() {
		pend = append(pend, m.Key())
	}
	if os.Getenv("VERIF_DEBUG") != "" {
		for _, m := range pr.cl.Net.Delivered() {
			env, _ := decodeEnvelope(m.Bytes)
			fmt.Printf("DEBUG delivered %s cid=%s len=%d\n", m.Key(), env.CorrelationID, len(m.Bytes))
		}
	}
	return &harness.Violation{Class: "blocked", Site: site, Detail: fmt.Sprintf("tasks %v still blocked at final quiescence (undeliverable pending: %v)", blocked, head(pend, 8))}
}

// firstFailure reports a task that returned an error or panicked.
func (pr *protoRun) firstFailure(site string) *harness.Violation {
	names := make([]string, 0, len(pr.tasks))
	for n := range pr.tasks {
		names = append(names, n)
	}
	sort.Strings(names)
	for _, n := range names {
		t := pr.tasks[n]
		if !t.Done() {
			continue
		}
		if p, st := t.Panic(); p != nil {
			return &harness.Violation{Class: "panic", Site: site, Detail: fmt.Sprintf("task %s panicked: %v\n%s", n, p, head(strings.Split(st, "\n"), 12))}
		}
		if _, err := t.Result(); err != nil {
			return &harness.Violation{Class: "honest-run-error", Site: site, Detail: fmt.Sprintf("task %s returned error in an all-honest run: %v", n, oneLineErr(err))}
		}
	}
	return nil
}

func oneLineErr(err error) string {
	s := fmt.Sprintf("%+v", err)
	s = strings.Join(strings.Fields(s), " ")
	if len(s) > 1500 {
		s = s[:1500] + "..."
	}
	return s
}

func (pr *protoRun) nontrivial() bool {
	n := 0
	for k, v := range pr.cl.Stats.Fired {
		if k != "deliver" {
			n += v
		}
	}
	return pr.cl.Stats.NonFIFO > 0 || n > 0
}

func (pr *protoRun) netClass() string {
	return fmt.Sprintf("pol=%s faults=%s", pr.cl.Policy, strings.Join(pr.faultKinds, ","))
}

// partyRand returns the random stream of one party for one purpose
// ("<session>/sess", "<session>/proto", ...). C07 varies single streams through
// rc.Params: alt="<id>|<purpose>|<tag>" replaces exactly that stream by an
// independent one; short="<id>|<purpose>" hands the same bytes out in short
// reads; failat="<id>|<purpose>|<k>" makes the k-th Read call fail;
// altcall="<id>|<purpose>|<k>" answers exactly the k-th Read call of the party's
// own goroutine from an independent stream (every other draw unchanged).
func partyRand(rc *harness.RunCtx, id sim.ID, purpose string) *sim.Rand {
	seed := rc.Seed.Sub(fmt.Sprintf("rand/%d/%s", id, purpose))
	me := fmt.Sprintf("%d|%s", id, purpose)
	if alt := rc.Params["alt"]; strings.HasPrefix(alt, me+"|") {
		seed = seed.Sub("alt:" + alt[len(me)+1:])
	}
	r := sim.NewRand(seed)
	if rc.Params["short"] == me {
		r.ShortMax = 5
	}
	if fa := rc.Params["failat"]; strings.HasPrefix(fa, me+"|") {
		fmt.Sscan(fa[len(me)+1:], &r.FailAt)
	}
	if ac := rc.Params["altcall"]; strings.HasPrefix(ac, me+"|") {
		fmt.Sscan(ac[len(me)+1:], &r.AltRootCall)
	}
	if rc.Aux != nil {
		rc.AuxMu.Lock()
		rc.Aux["rand:"+me] = r
		rc.AuxMu.Unlock()
	}
	return r
}

func setGlobalRand(t *testing.T, tag string) {
	cryptotest.SetGlobalRandom(t, harness.HashU64("global", tag))
}
