package checks

import (
	"fmt"
	"os"
	"sort"
	"testing"
	"testing/synctest"

	"verif/cbor"
	"verif/harness"
	"verif/sim"
)

// TestDevDump prints the leaf inventory of the messages of one honest run (development aid).
func TestDevDump(t *testing.T) {
	if os.Getenv("VERIF_DEV") == "" {
		t.Skip()
	}
	synctest.Test(t, func(t *testing.T) {
		rc := &harness.RunCtx{T: t, Seed: sim.RootSeed(1), Replay: []string{}}
		spec, _ := genAccess(rc.Seed.Sub("w").Rand(), 3, "threshold")
		pr := newProtoRun(rc, spec.ids, false)
		seen := map[string]bool{}
		pr.cl.Net.OnSend = func(m *sim.Msg) []*sim.Msg {
			env, err := decodeEnvelope(m.Bytes)
			if err != nil || seen[env.CorrelationID] {
				return []*sim.Msg{m}
			}
			seen[env.CorrelationID] = true
			fmt.Printf("=== %s (%d bytes)\n", env.CorrelationID, len(env.Payload))
			tr, err := cbor.Parse(env.Payload)
			if err != nil {
				fmt.Println("  parse error", err)
				return []*sim.Msg{m}
			}
			if string(tr.Encode()) != string(env.Payload) {
				fmt.Println("  RE-ENCODING DIFFERS")
			}
			dumpTree(tr, "  ")
			return []*sim.Msg{m}
		}
		kit := kitK256()
		for _, id := range spec.ids {
			pr.start(dkgScript(fmt.Sprintf("A@%d", id), id, spec, kit, os.Getenv("VERIF_DEV"), niCompilers[0], "A", sim.NewRand(rc.Seed.Sub(fmt.Sprint(id)))))
		}
		pr.run()
		pr.finish()
	})
}

func dumpTree(tr *cbor.Node, ind string) {
	counts := map[string]int{}
	var order []string
	for _, l := range tr.Leaves() {
		k := cbor.NormPath(l.Path) + " : " + l.Node.Kind()
		if counts[k] == 0 {
			order = append(order, k)
		}
		counts[k]++
		// nested CBOR inside byte strings
		if l.Node.Major == 2 && len(l.Node.Bytes) > 8 {
			if sub, err := cbor.Parse(l.Node.Bytes); err == nil && (sub.Major >= 4) {
				fmt.Printf("%s%s  -> nested CBOR:\n", ind, l.Path)
				dumpTree(sub, ind+"    ")
			}
		}
	}
	sort.Strings(order)
	for _, k := range order {
		fmt.Printf("%s%s  x%d\n", ind, k, counts[k])
	}
}
