// Package sim is the deterministic simulator: seed tree, simulated network
// (network.Delivery), per-party random sources, simulated disk, the bubble
// scheduler (macro-step) and decision traces with replay and minimisation.
//
// One integer (VERIF_SEED) decides everything. No code in this package reads a
// real clock or draws from a PRNG in a logging path.
package sim

import (
	"crypto/sha256"
	"encoding/binary"
	"encoding/hex"
	"math/rand/v2"
)

// Seed is a node of the seed tree. Children are derived by label, so removing a
// consumer (e.g. a fault during minimisation) never shifts an unrelated stream.
type Seed [32]byte

// RootSeed derives the root from the integer seed.
func RootSeed(n int64) Seed {
	var b [8]byte
	binary.LittleEndian.PutUint64(b[:], uint64(n))
	return sha256.Sum256(append([]byte("verif-root:"), b[:]...))
}

// Sub derives a labelled child.
func (s Seed) Sub(label string) Seed {
	h := sha256.New()
	h.Write(s[:])
	h.Write([]byte{0})
	h.Write([]byte(label))
	var out Seed
	copy(out[:], h.Sum(nil))
	return out
}

// SubN derives an indexed child.
func (s Seed) SubN(label string, n uint64) Seed {
	var b [8]byte
	binary.LittleEndian.PutUint64(b[:], n)
	return s.Sub(label + ":" + hex.EncodeToString(b[:]))
}

// Rand returns a ChaCha8 stream keyed by the seed.
func (s Seed) Rand() *rand.Rand {
	return rand.New(rand.NewChaCha8(s))
}

// Hex returns a short printable form.
func (s Seed) Hex() string { return hex.EncodeToString(s[:8]) }

// U64 returns a pseudo-random 64-bit value that is a pure function of the seed.
func (s Seed) U64() uint64 { return binary.LittleEndian.Uint64(s[:8]) }

// Float returns a value in [0,1) that is a pure function of the seed.
func (s Seed) Float() float64 { return float64(s.U64()>>11) / (1 << 53) }
