NOTES = "One deterministic simulator (sim/): seed tree, simulated Delivery, per-party random sources, bubble scheduler over testing/synctest, decision traces with replay and minimisation. Every check is ./check <id> <tier>; it rebuilds against the current /repo tree, runs seeded simulated runs in 16 single-threaded worker processes and writes evidence/<id>.json. Exit 2 = build or harness trouble, never a violation."
ENGINES = [
 {"name":"cluster-sim (macro-step)","path":"/verif/sim","serves_properties":["C01","C03","C04","C06","C07","C09","C10","C11"],"kind_free_text":"deterministic discrete-event simulation: real parties and routers in a testing/synctest bubble, one scheduler-chosen event per quiescence, seeded delivery policies and fault injection"},
]
PENDING = {
 "C06":"check under construction in this session (planned: history simulation, DESIGN.md section 3)",
 "C07":"check under construction in this session (planned: paired replay on the randomness seam, DESIGN.md section 3)",
 "C09":"check under construction in this session (planned: two-party runs with wire faults, DESIGN.md section 3)",
}
CHECKS = {
 "C11": {"engine":"cluster-sim (macro-step)","level":"exploration",
  "text":"Seeded search over delivery schedules and fault sequences against real Routers (and echo broadcast) running over a simulated Delivery; every receive outcome is compared, at every quiescent state, with a sequential reference mailbox model, and blocked receives whose set is complete are reported as lost wake-ups. Sampling, not proof: the right level for a property quantified over all arrival orders, duplications and cancellation points.",
  "design_ref":"DESIGN.md section 3 C11, section 2.2-2.4",
  "note":"Trusted: testing/synctest quiescence detection, the harness's reference mailbox model (written from the Router documentation), the simulated Delivery. Macro-step explores interleavings at quiescence granularity only.",
  "technique":"deterministic simulation with fault injection (seeded schedule/fault search, reference-model oracle, replayable decision traces)"},
 "C03": {"engine":"cluster-sim (macro-step)","level":"exploration",
  "text":"Seeded simulated key generations (Gennaro with three NIZK compilers, Canetti, trusted dealer; seven groups; five access-structure families generated together with an independent reference predicate) run through the real session and DKG runners over the simulated network with reordering, duplication, redelivery and foreign injection; the outcome is judged by reference linear algebra and reference curve arithmetic over every subset of holders, and shards are persisted, crashed and reloaded on a simulated disk with and without storage faults. Sampling over configurations and schedules is the right level: the property quantifies over structures, groups, ids, seeds and delivery orders.",
  "design_ref":"DESIGN.md section 3 C03",
  "note":"Trusted: math/big reference arithmetic and Gaussian elimination in /verif/ref, the policy evaluators in checks/access.go, testing/synctest. BLS12-381 G2 uses the library's own scalar multiplication for the final comparison (semi-independent).",
  "technique":"deterministic simulation with fault injection (seeded schedule/fault search over real DKG runners, reference-model oracle, simulated disk crash/reload)"},
 "C10": {"engine":"cluster-sim (macro-step)","level":"exploration",
  "text":"Seeded simulated session setups through the real runner (echo broadcast included) under reordering, duplication, redelivery and injection, with the full symmetry / separation / zero-sum oracle over every sub-quorum, and single-leaf tampering of setup messages by one corrupt party.",
  "design_ref":"DESIGN.md section 3 C10",
  "note":"Trusted: testing/synctest, the harness oracle; inequality checks assume SHA-3 collision resistance.",
  "technique":"deterministic simulation with fault injection (seeded schedule/fault search, wire adversary on one party's link)"},
 "C01": {"engine":"cluster-sim (macro-step)","level":"exploration",
  "text":"Seeded simulated threshold-signing runs through the real session and signing runners (and real DKG runners for part of the key material) over the simulated network with reordering, duplication, redelivery and injection; quorums are drawn from an independent policy evaluator, every quorum member and an outsider aggregate, and the signature is judged by verifiers written from the specifications over independent curve arithmetic (plus the standard library where wire-compatible) for exactly the signed message.",
  "design_ref":"DESIGN.md section 3 C01",
  "note":"Trusted: /verif/ref (math/big curve arithmetic, ECDSA, BIP-340, Schnorr verification), Go standard library hashes and crypto/ecdsa, crypto/ed25519, testing/synctest. BLS and Mina are judged semi-independently (library verifier + omniscient algebraic check).",
  "technique":"deterministic simulation with fault injection (seeded schedule/fault search over real signing runners, independent verifier oracle)"},
 "C04": {"engine":"cluster-sim (macro-step)","level":"fault_enumeration",
  "text":"Enumeration of single-fault cells (scenario x corrupt party position x message type x recipient x CBOR leaf x operator) derived from the recorded messages of an honest run: each cell re-runs the real runners (real echo broadcast, a parallel untouched session) with one alteration applied on the corrupt party's outgoing link, a broadcast being altered identically in all copies. Oracle: no honest party panics or hangs, every blamed identity is the corrupt one, every accepted signature verifies independently and every accepted shard is self-consistent, and a bound alteration makes an honest party (the recipient for unicasts) reject. The thorough tier visits every cell of every scenario; quick visits an evenly spread subset.",
  "design_ref":"DESIGN.md section 3 C04, section 2.5",
  "note":"Trusted: the binding table (every leaf bound unless justified free), the self-written CBOR tree codec, the reference verifiers. One fault per run, n=3; the corrupt party runs honest code with the deviation applied on the wire, so cells in which that party aborts by itself before the honest checks are reached are counted as inconclusive, not as detected.",
  "technique":"deterministic simulation with fault injection (exhaustive enumeration of single wire-fault cells over simulated protocol runs)"},
}
