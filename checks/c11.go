package checks

import "verif/harness"

// C11Workloads lists the simulated-run families that decide C11.
func C11Workloads() []harness.Workload {
	return []harness.Workload{
		{Name: "router-macro", Quick: 20000, Thorough: 1000000, Run: RunRouterMacro},
		{Name: "router-fine", Quick: 3000, Thorough: 200000, Run: RunRouterFine},
		{Name: "echo", Quick: 1500, Thorough: 100000, Run: RunEcho},
		{Name: "router-buffer", Quick: 8, Thorough: 80, Run: RunRouterBuffer},
	}
}
