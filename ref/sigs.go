package ref

import (
	"crypto/sha256"
	"errors"
	"hash"
	"math/big"
)

// bits2int per FIPS 186-5 6.4.1: leftmost min(hashlen, qlen) bits of the digest.
func bits2int(digest []byte, q *big.Int) *big.Int {
	qlen := q.BitLen()
	size := (qlen + 7) / 8
	if len(digest) > size {
		digest = digest[:size]
	}
	e := new(big.Int).SetBytes(digest)
	if excess := len(digest)*8 - qlen; excess > 0 {
		e.Rsh(e, uint(excess))
	}
	return e
}

// ECDSAVerify checks (r, s) on digest under public key Q (textbook ECDSA).
func ECDSAVerify(c *Weierstrass, Q Point, digest []byte, r, s *big.Int) error {
	if Q.Inf || !c.OnCurve(Q) {
		return errors.New("invalid public key")
	}
	if r.Sign() <= 0 || r.Cmp(c.Q) >= 0 || s.Sign() <= 0 || s.Cmp(c.Q) >= 0 {
		return errors.New("r or s out of range")
	}
	e := bits2int(digest, c.Q)
	w := new(big.Int).ModInverse(s, c.Q)
	u1 := mod(new(big.Int).Mul(e, w), c.Q)
	u2 := mod(new(big.Int).Mul(r, w), c.Q)
	X := c.Add(Mul(c, u1, c.Gen()), Mul(c, u2, Q))
	if X.Inf {
		return errors.New("point at infinity")
	}
	if mod(X.X, c.Q).Cmp(r) != 0 {
		return errors.New("signature mismatch")
	}
	return nil
}

func taggedHash(tag string, parts ...[]byte) []byte {
	t := sha256.Sum256([]byte(tag))
	h := sha256.New()
	h.Write(t[:])
	h.Write(t[:])
	for _, p := range parts {
		h.Write(p)
	}
	return h.Sum(nil)
}

// BIP340Verify implements the verification algorithm of BIP-340 verbatim.
func BIP340Verify(pk32, msg, sig64 []byte) error {
	c := Secp256k1
	if len(pk32) != 32 || len(sig64) != 64 {
		return errors.New("bad length")
	}
	P, err := c.LiftX(new(big.Int).SetBytes(pk32))
	if err != nil {
		return err
	}
	r := new(big.Int).SetBytes(sig64[:32])
	s := new(big.Int).SetBytes(sig64[32:])
	if r.Cmp(c.P) >= 0 || s.Cmp(c.Q) >= 0 {
		return errors.New("r or s out of range")
	}
	e := mod(new(big.Int).SetBytes(taggedHash("BIP0340/challenge", sig64[:32], pk32, msg)), c.Q)
	R := c.Add(Mul(c, s, c.Gen()), c.Neg(Mul(c, e, P)))
	if R.Inf || R.Y.Bit(0) == 1 || R.X.Cmp(r) != 0 {
		return errors.New("signature mismatch")
	}
	return nil
}

// SchnorrVerify checks the plain Schnorr relation [s]G = R + [e]P (or R - [e]P
// when negative) with e = H(Renc || Penc || msg) interpreted big-endian (or
// little-endian when le) and reduced mod q. Renc/Penc are the wire encodings.
func SchnorrVerify(c Curve, R, P Point, Renc, Penc, msg []byte, s *big.Int, h func() hash.Hash, le, negative bool) error {
	if !c.OnCurve(R) || !c.OnCurve(P) {
		return errors.New("point not on curve")
	}
	hh := h()
	hh.Write(Renc)
	hh.Write(Penc)
	hh.Write(msg)
	d := hh.Sum(nil)
	if le {
		for i, j := 0, len(d)-1; i < j; i, j = i+1, j-1 {
			d[i], d[j] = d[j], d[i]
		}
	}
	e := mod(new(big.Int).SetBytes(d), c.Order())
	if s.Sign() < 0 || s.Cmp(c.Order()) >= 0 {
		return errors.New("s out of range")
	}
	eP := Mul(c, e, P)
	if negative {
		eP = c.Neg(eP)
	}
	lhs := Mul(c, s, c.Gen())
	if !Equal(normalize(c, lhs), normalize(c, c.Add(R, eP))) {
		return errors.New("signature mismatch")
	}
	return nil
}

func normalize(c Curve, p Point) Point {
	if _, ok := c.(*Edwards); ok && p.Inf {
		return Point{X: big.NewInt(0), Y: big.NewInt(1)}
	}
	return p
}
