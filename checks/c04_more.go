package checks

import (
	"context"
	"crypto/sha256"
	"encoding/hex"
	"fmt"
	"math/big"
	"strings"
	"sync"

	"github.com/bronlabs/bron-crypto/pkg/base/curves/k256"
	"github.com/bronlabs/bron-crypto/pkg/base/serde"
	"github.com/bronlabs/bron-crypto/pkg/mpc"
	"github.com/bronlabs/bron-crypto/pkg/mpc/aor"
	"github.com/bronlabs/bron-crypto/pkg/mpc/dkg/trusteddealer"
	"github.com/bronlabs/bron-crypto/pkg/mpc/redistribute"
	"github.com/bronlabs/bron-crypto/pkg/mpc/session"
	"github.com/bronlabs/bron-crypto/pkg/mpc/signatures/bls/boldyreva02"
	l17dkg "github.com/bronlabs/bron-crypto/pkg/mpc/signatures/ecdsa/lindell17/keygen/dkg"
	l17dealer "github.com/bronlabs/bron-crypto/pkg/mpc/signatures/ecdsa/lindell17/keygen/trusted_dealer"
	l17signing "github.com/bronlabs/bron-crypto/pkg/mpc/signatures/ecdsa/lindell17/signing"
	"github.com/bronlabs/bron-crypto/pkg/network"
	"github.com/bronlabs/bron-crypto/pkg/proofs/sigma/compiler"
	"github.com/bronlabs/bron-crypto/pkg/proofs/sigma/compiler/fiatshamir"
	"github.com/bronlabs/bron-crypto/pkg/proofs/sigma/compiler/fischlin"
	"github.com/bronlabs/bron-crypto/pkg/signatures/bls"
	sigecdsa "github.com/bronlabs/bron-crypto/pkg/signatures/ecdsa"
	"github.com/bronlabs/bron-crypto/pkg/transcripts/hagrid"

	"verif/harness"
	"verif/ref"
	"verif/sim"
)

// newC04RunIDs is newC04Run for a scenario with its own party set.
func newC04RunIDs(rc *harness.RunCtx, adv *adversary, ids []sim.ID) *protoRun {
	pr := newProtoRun(rc, ids, false)
	if rc.Params["sched"] != "random" {
		pr.cl.Policy = sim.PolFIFO
	}
	pr.cl.Net.OnSend = adv.onSend
	pr.cl.MaxSteps = 100000
	return pr
}

func disjointIDs(a, b []sim.ID) bool {
	for _, x := range a {
		if idSet(b)[x] {
			return false
		}
	}
	return true
}

func okEnd(e partyEnd) bool { return e.done && e.err == nil && e.panic == nil }

// ---- scenario: agree on random ----

// aorSampleLen: deliberately neither a multiple of a hash block nor of 8.
const aorSampleLen = 45

func scenarioAOR() *c04Scenario {
	s := &c04Scenario{name: "aor", only: []string{"aor/"}, jointUniform: true}
	s.canon = map[string]func([]byte) ([]byte, error){
		"aor/AgreeOnRandomRound1BroadcastBROADCAST:": canonOf[*aor.Round1Broadcast](),
		"aor/AgreeOnRandomRound2BroadcastBROADCAST:": canonOf[*aor.Round2Broadcast](),
	}
	s.run = func(rc *harness.RunCtx, adv *adversary) c04Result {
		pr := newC04Run(rc, adv)
		for _, ns := range []string{"A", "B"} {
			ns := ns
			for _, id := range c04IDs {
				id := id
				pr.start(script{name: fmt.Sprintf("%s@%d", ns, id), party: id, fn: func(ctx context.Context, rt *network.Router) (any, error) {
					r, err := aor.NewAgreeOnRandomRunner(id, quorumOf(c04IDs), aorSampleLen, hagrid.NewTranscript("C04 agree on random "+ns), partyRand(rc, id, ns+"/proto"))
					if err != nil {
						return nil, err
					}
					return r.Run(ctx, rt.Namespaced(ns+"-aor"), nil)
				}})
			}
		}
		if err := pr.run(); err != nil {
			pr.finish()
			return c04Result{harnessErr: err}
		}
		res := c04Result{ends: collectEnds(pr, c04IDs, "A"), stats: pr.cl.Stats, trace: pr.cl.Trace, probes: pr.probes, digest: map[sim.ID]string{}}
		pr.finish()
		var first string
		for _, id := range c04IDs {
			e := res.ends[id]
			if !okEnd(e) {
				continue
			}
			b, _ := e.out.([]byte)
			res.digest[id] = hex.EncodeToString(b)
			res.joint = res.digest[id]
			if id == adv.corrupt {
				continue
			}
			if len(b) != aorSampleLen {
				res.safety = &harness.Violation{Class: "bad-output", Site: "aor", Detail: fmt.Sprintf("honest party %d returned a sample of %d bytes, %d were requested", id, len(b), aorSampleLen)}
			}
			if first == "" {
				first = res.digest[id]
			} else if first != res.digest[id] {
				res.safety = &harness.Violation{Class: "honest-disagree", Site: "aor", Detail: "two honest parties completed agree-on-random with different samples"}
			}
		}
		return res
	}
	s.classify = func(string) (string, string) { return "bound", "" }
	return s
}

// ---- scenario: redistribution (refresh / recovery / change of holders are this protocol) ----

var redistPrev = []sim.ID{7, 12, 300}

const redistAnchor = sim.ID(12)

// scenarioRedistribute: the previous holders (2-of-3 over 7, 12, 300) all drive;
// redistNext are the holders of the next 2-of-3 structure. With next = {12, 45, 300}
// one holder leaves and one newcomer joins; with next = {45, 46, 47} every next holder
// is new, so nobody on the receiving side has a previous shard to compare with.
func scenarioRedistribute(name string, anchored bool, redistNext []sim.ID) *c04Scenario {
	redistQuorum := unionIDs(redistPrev, redistNext)
	s := &c04Scenario{name: name, only: []string{"redist/"}, maxLeaves: 40}
	for i, id := range redistQuorum {
		if idSet(redistPrev)[id] {
			s.c07Pos = append(s.c07Pos, fmt.Sprint(i)) // a next-only holder samples nothing
		}
	}
	s.canon = map[string]func([]byte) ([]byte, error){
		"redist/RedistributeRound1BROADCAST:": canonOf[*redistribute.Round1Broadcast[*k256Point, *k256Scalar]](),
		"redist/RedistributeRound1UNICAST:":   canonOf[*redistribute.Round1P2P[*k256Point, *k256Scalar]](),
		"redist/RedistributeRound2BROADCAST:": canonOf[*redistribute.Round2Broadcast[*k256Point, *k256Scalar]](),
		"redist/RedistributeRound2UNICAST:":   canonOf[*redistribute.Round2P2P[*k256Point, *k256Scalar]](),
	}
	if anchored {
		// the property excludes the party the caller configured as trusted
		s.skipCorrupt = map[sim.ID]string{redistAnchor: "trusted anchor of the next-only holder (documented trust extension)"}
	}
	s.run = func(rc *harness.RunCtx, adv *adversary) c04Result {
		kit := kitK256()
		prevSpec, err := genFixedThreshold(2, redistPrev)
		if err != nil {
			return c04Result{harnessErr: err}
		}
		nextSpec, err := genFixedThreshold(2, redistNext)
		if err != nil {
			return c04Result{harnessErr: err}
		}
		dealt, err := trusteddealer.Deal(kit.group, prevSpec.lib, sim.NewRand(rc.Seed.Sub("rand/dealer")))
		if err != nil {
			return c04Result{harnessErr: err}
		}
		prevShards := map[sim.ID]*mpc.BaseShard[*k256Point, *k256Scalar]{}
		var pk *k256Point
		for id, sh := range dealt.Iter() {
			prevShards[id] = sh
			pk = sh.PublicKeyValue()
		}
		pr := newC04RunIDs(rc, adv, redistQuorum)
		for _, ns := range []string{"A", "B"} {
			ns := ns
			for _, id := range redistQuorum {
				id := id
				pr.start(script{name: fmt.Sprintf("%s@%d", ns, id), party: id, fn: func(ctx context.Context, rt *network.Router) (any, error) {
					sr, err := session.NewSessionRunner(id, quorumOf(redistQuorum), partyRand(rc, id, ns+"/sess"))
					if err != nil {
						return nil, err
					}
					sctx, err := sr.Run(ctx, rt.Namespaced(ns+"-sess"), nil)
					if err != nil {
						return nil, err
					}
					var opts []redistribute.Option
					if anchored && prevShards[id] == nil {
						opts = append(opts, redistribute.WithTrustedAnchorID(redistAnchor))
					}
					r, err := redistribute.NewRunner(sctx, quorumOf(redistPrev), prevShards[id], nextSpec.lib, partyRand(rc, id, ns+"/proto"), opts...)
					if err != nil {
						return nil, err
					}
					return r.Run(ctx, rt.Namespaced(ns+"-redist"), nil)
				}})
			}
		}
		if err := pr.run(); err != nil {
			pr.finish()
			return c04Result{harnessErr: err}
		}
		res := c04Result{ends: collectEnds(pr, redistQuorum, "A"), stats: pr.cl.Stats, trace: pr.cl.Trace, probes: pr.probes, digest: map[sim.ID]string{}}
		pr.finish()
		var firstVV string
		for _, id := range redistQuorum {
			e := res.ends[id]
			if !okEnd(e) {
				continue
			}
			sh, _ := e.out.(*mpc.BaseShard[*k256Point, *k256Scalar])
			if sh == nil {
				res.digest[id] = "no shard"
				if id != adv.corrupt && idSet(redistNext)[id] {
					res.safety = &harness.Violation{Class: "bad-output", Site: name, Detail: fmt.Sprintf("honest next holder %d completed without a shard", id)}
				}
				continue
			}
			if b, err := serde.MarshalCBOR(sh); err == nil {
				res.digest[id] = fmt.Sprintf("%x", sha256.Sum256(b))
			}
			res.joint = hex.EncodeToString(sh.VerificationVector().Value().Bytes())
			if id == adv.corrupt {
				continue
			}
			if v := selfConsistent(kit, sh, id, name); v != nil {
				res.safety = v
			}
			if !sh.PublicKeyValue().Equal(pk) {
				res.safety = &harness.Violation{Class: "accepted-changed-key", Site: name, Detail: fmt.Sprintf("honest holder %d accepted a redistributed shard whose public key differs from the key that was redistributed", id)}
			}
			vv := hex.EncodeToString(sh.VerificationVector().Value().Bytes())
			if firstVV == "" {
				firstVV = vv
			} else if firstVV != vv {
				res.safety = &harness.Violation{Class: "honest-disagree", Site: name, Detail: "two honest next holders accepted different verification vectors"}
			}
		}
		return res
	}
	s.classify = func(label string) (string, string) {
		nextOnly := false
		for _, id := range redistQuorum {
			if !idSet(redistPrev)[id] && strings.Contains(label, "|c="+posLabel(id, redistQuorum)+"|") {
				nextOnly = true
			}
		}
		if !anchored && disjointIDs(redistPrev, redistNext) && strings.Contains(label, "RedistributeRound2BROADCAST:") {
			// Every next holder is new and none has a trusted anchor: nobody on the receiving
			// side has a reference for the metadata of the old sharing (documented in the
			// package README, "Identifiable Abort"). What such a holder can and does check is
			// the aggregate: the contributions must add up to the old public key every
			// previous holder claims, i.e. entry 0 of PrevVerificationVector. The old MSP,
			// the higher entries of the old verification vector and the zero-sharing vector
			// are not used by it.
			if strings.Contains(label, ".PrevMSP.") || strings.Contains(label, ".ZeroVerificationVector.") ||
				(strings.Contains(label, ".PrevVerificationVector.") && strings.HasSuffix(label, "#1")) {
				return "free", "old-sharing metadata that a next-only holder without a trusted anchor cannot check (documented); only the claimed old public key is bound"
			}
		}
		if nextOnly {
			return "free", "a next-only holder contributes nothing in rounds 1 and 2; the protocol ignores its (empty) messages by design"
		}
		return "bound", ""
	}
	return s
}

// ---- scenario: Lindell17 two-party signing ----

func scenarioLindell17Sign(name string, primary, secondary sim.ID) *c04Scenario {
	s := &c04Scenario{name: name, only: []string{"sign/"}, maxLeaves: 40, heavy: true, c07Pos: []string{"0", "1"}}
	s.canon = map[string]func([]byte) ([]byte, error){
		"sign/Lindell17SignRound1UNICAST:": canonOf[*l17signing.Round1OutputP2P[*k256Point, *k256Base, *k256Scalar]](),
		"sign/Lindell17SignRound2UNICAST:": canonOf[*l17signing.Round2OutputP2P[*k256Point, *k256Base, *k256Scalar]](),
		"sign/Lindell17SignRound3UNICAST:": canonOf[*l17signing.Round3OutputP2P[*k256Point, *k256Base, *k256Scalar]](),
		"sign/Lindell17SignRound4UNICAST:": canonOf[*l17signing.Round4OutputP2P[*k256Point, *k256Base, *k256Scalar]](),
	}
	pair := sortedIDs([]sim.ID{primary, secondary})
	s.run = func(rc *harness.RunCtx, adv *adversary) c04Result {
		kit := kitK256()
		curve := k256.NewCurve()
		spec, err := genFixedThreshold(2, c04IDs)
		if err != nil {
			return c04Result{harnessErr: err}
		}
		// Paillier primes come from the process-global source (finding C07-3): pin it so
		// that every run of this scenario deals the same shards
		setGlobalRand(rc.T, "c04/"+name)
		dealt, pub, err := l17dealer.DealRandom(curve, spec.lib, l17KeyLen, sim.NewRand(rc.Seed.Sub("rand/dealer")))
		if err != nil {
			return c04Result{harnessErr: err}
		}
		shards := map[sim.ID]*l17Shard{}
		for id, sh := range dealt.Iter() {
			shards[id] = sh
		}
		// from here on the process-global source is what the caller of the scenario chose
		// (C07 hidden-source pairs vary it for the signing stage, on identical shards)
		setGlobalRand(rc.T, "c04/"+name+"/signing/"+rc.Params["global_rand"])
		suite, err := sigecdsa.NewSuite(curve, sha256.New)
		if err != nil {
			return c04Result{harnessErr: err}
		}
		msg := []byte("C04 message to be signed")
		pr := newC04RunIDs(rc, adv, pair)
		var mu sync.Mutex
		var safety *harness.Violation
		accepted := 0
		for _, ns := range []string{"A", "B"} {
			ns := ns
			for _, id := range pair {
				id := id
				pr.start(script{name: fmt.Sprintf("%s@%d", ns, id), party: id, fn: func(ctx context.Context, rt *network.Router) (any, error) {
					sr, err := session.NewSessionRunner(id, quorumOf(pair), partyRand(rc, id, ns+"/sess"))
					if err != nil {
						return nil, err
					}
					sctx, err := sr.Run(ctx, rt.Namespaced(ns+"-sess"), nil)
					if err != nil {
						return nil, err
					}
					myMsg := msg
					if rc.Params["altmsg"] == fmt.Sprint(id) && ns == "A" {
						myMsg = []byte("another message, signed by one cosigner only")
					}
					rnd := partyRand(rc, id, ns+"/proto")
					var r network.Runner[*sigecdsa.Signature[*k256Scalar]]
					if id == primary {
						r, err = l17signing.NewPrimaryRunner(sctx, suite, secondary, shards[id], compiler.Name(fischlin.Name), rnd, myMsg)
					} else {
						r, err = l17signing.NewSecondaryRunner(sctx, suite, primary, shards[id], compiler.Name(fischlin.Name), rnd, myMsg)
					}
					if err != nil {
						return nil, err
					}
					sig, err := r.Run(ctx, rt.Namespaced(ns+"-sign"), nil)
					if err != nil {
						return nil, err
					}
					if sig != nil && ns == "A" && id != adv.corrupt {
						mu.Lock()
						accepted++
						if verr := refECDSAVerify(kit, ecdsaK256(), sha256.New, pub.Value(), myMsg, sig); verr != nil {
							safety = &harness.Violation{Class: "invalid-signature-released", Site: name, Detail: fmt.Sprintf("honest cosigner %d returned a signature that fails independent verification for the message it signed: %v", id, verr)}
						}
						mu.Unlock()
					}
					return sig, nil
				}})
			}
		}
		if err := pr.run(); err != nil {
			pr.finish()
			return c04Result{harnessErr: err}
		}
		res := c04Result{ends: collectEnds(pr, pair, "A"), stats: pr.cl.Stats, trace: pr.cl.Trace, probes: pr.probes, safety: safety, digest: map[sim.ID]string{}}
		pr.finish()
		for _, id := range pair {
			if e := res.ends[id]; okEnd(e) {
				if sig, _ := e.out.(*sigecdsa.Signature[*k256Scalar]); sig != nil {
					res.digest[id] = "sig:" + hex.EncodeToString(sig.R().Bytes()) + hex.EncodeToString(sig.S().Bytes())
					res.joint = hex.EncodeToString(sig.R().Bytes())
				} else {
					res.digest[id] = "done"
				}
			}
		}
		if accepted > 0 {
			res.probes["signature_accepted_despite_tamper"] += accepted
		}
		return res
	}
	s.classify = func(string) (string, string) { return "bound", "" }
	return s
}

// ---- scenario: Lindell17 DKG (Paillier keys, LP / LPDL / range proofs) ----

func scenarioLindell17DKG(name string, ids []sim.ID) *c04Scenario {
	s := &c04Scenario{name: name, only: []string{"dkg/"}, maxLeaves: 0, heavy: true, costlyRun: true}
	if len(ids) > 2 {
		s.maxLeaves = 14 // three parties: three times the positions and twice the recipients
	}
	s.canon = map[string]func([]byte) ([]byte, error){
		"dkg/BRON_CRYPTO_LINDELL17_DKG_R1BROADCAST:": canonOf[*l17dkg.Round1Broadcast[*k256Point, *k256Base, *k256Scalar]](),
		"dkg/BRON_CRYPTO_LINDELL17_DKG_R2BROADCAST:": canonOf[*l17dkg.Round2Broadcast[*k256Point, *k256Base, *k256Scalar]](),
		"dkg/BRON_CRYPTO_LINDELL17_DKG_R3BROADCAST:": canonOf[*l17dkg.Round3Broadcast[*k256Point, *k256Base, *k256Scalar]](),
		"dkg/BRON_CRYPTO_LINDELL17_DKG_R4UNICAST:":   canonOf[*l17dkg.Round4P2P[*k256Point, *k256Base, *k256Scalar]](),
		"dkg/BRON_CRYPTO_LINDELL17_DKG_R5UNICAST:":   canonOf[*l17dkg.Round5P2P[*k256Point, *k256Base, *k256Scalar]](),
		"dkg/BRON_CRYPTO_LINDELL17_DKG_R6UNICAST:":   canonOf[*l17dkg.Round6P2P[*k256Point, *k256Base, *k256Scalar]](),
		"dkg/BRON_CRYPTO_LINDELL17_DKG_R7UNICAST:":   canonOf[*l17dkg.Round7P2P[*k256Point, *k256Base, *k256Scalar]](),
	}
	s.run = func(rc *harness.RunCtx, adv *adversary) c04Result {
		kit := kitK256()
		curve := k256.NewCurve()
		spec, err := genFixedThreshold(2, ids)
		if err != nil {
			return c04Result{harnessErr: err}
		}
		setGlobalRand(rc.T, "c04/"+name)
		dealt, err := trusteddealer.Deal(curve, spec.lib, sim.NewRand(rc.Seed.Sub("rand/dealer")))
		if err != nil {
			return c04Result{harnessErr: err}
		}
		pr := newC04RunIDs(rc, adv, ids)
		// one session only: the protocol is expensive, and the parallel-session
		// replays are exercised by the other scenarios
		for _, id := range ids {
			id := id
			b, _ := dealt.Get(id)
			pr.start(script{name: fmt.Sprintf("A@%d", id), party: id, fn: func(ctx context.Context, rt *network.Router) (any, error) {
				sr, err := session.NewSessionRunner(id, quorumOf(ids), partyRand(rc, id, "A/sess"))
				if err != nil {
					return nil, err
				}
				sctx, err := sr.Run(ctx, rt.Namespaced("A-sess"), nil)
				if err != nil {
					return nil, err
				}
				r, err := l17dkg.NewRunner(sctx, b, l17KeyLen, curve, partyRand(rc, id, "A/proto"), compiler.Name(fiatshamir.Name))
				if err != nil {
					return nil, err
				}
				return r.Run(ctx, rt.Namespaced("A-dkg"), nil)
			}})
		}
		if err := pr.run(); err != nil {
			pr.finish()
			return c04Result{harnessErr: err}
		}
		res := c04Result{ends: collectEnds(pr, ids, "A"), stats: pr.cl.Stats, trace: pr.cl.Trace, probes: pr.probes, digest: map[sim.ID]string{}}
		pr.finish()
		done := map[sim.ID]*l17Shard{}
		for _, id := range ids {
			e := res.ends[id]
			if !okEnd(e) {
				continue
			}
			sh, _ := e.out.(*l17Shard)
			if sh == nil {
				if id != adv.corrupt {
					res.safety = &harness.Violation{Class: "bad-output", Site: name, Detail: fmt.Sprintf("honest party %d completed without a shard", id)}
				}
				continue
			}
			// Paillier primes are drawn from the process-global source by concurrently
			// running parties: only the part that is a function of the supplied readers
			// enters the digest
			if b, err := serde.MarshalCBOR(&sh.BaseShard); err == nil {
				res.digest[id] = fmt.Sprintf("%x", sha256.Sum256(b))
			}
			res.joint = hex.EncodeToString(sh.PublicKeyValue().Bytes())
			if id != adv.corrupt {
				done[id] = sh
				if v := selfConsistent(kit, &sh.BaseShard, id, name); v != nil {
					res.safety = v
				}
			}
		}
		if v := l17CrossCheck(done, name); v != nil {
			res.safety = v
		}
		return res
	}
	s.classify = func(label string) (string, string) {
		// LPDL round 3 carries the verifier's challenge pair (a, b) as num.Uint values,
		// whose encoding repeats the modulus they live under. The prover uses only the
		// integer values (Lift) and their value bytes (commitment opening): the modulus
		// tag is redundant metadata, nothing the proof binds.
		if strings.Contains(label, "DKG_R6UNICAST:") && (strings.Contains(label, "Round3Output.A.modulus.") || strings.Contains(label, "Round3Output.B.modulus.")) {
			return "free", "modulus tag inside the encoding of the LPDL challenge pair (a, b): the prover uses only the integer values, which the commitment binds"
		}
		// Range proof (cut and choose): for a challenge bit 1 the prover opens only the one
		// commitment of the pair (C1[i], C2[i]) it points at; the other one is never looked at.
		// Whether an altered commitment is noticed therefore depends on the verifier's coins.
		if strings.Contains(label, "RangeProverOutput.C1[") || strings.Contains(label, "RangeProverOutput.C2[") {
			return "free", "cut-and-choose commitment of the Paillier range proof: checked only if the verifier's challenge bit selects it (statistical soundness by design)"
		}
		return "bound", ""
	}
	return s
}

// l17CrossCheck: what honest holder i stores about honest holder j must be j's
// real Paillier key and encryptions of j's real share components.
func l17CrossCheck(shards map[sim.ID]*l17Shard, site string) *harness.Violation {
	for i, si := range shards {
		for j, sj := range shards {
			if i == j {
				continue
			}
			ppk, ok := si.PaillierPublicKeys().Get(j)
			if !ok {
				continue // not a qualified pair
			}
			if !ppk.Equal(sj.PaillierSecretKey().Public()) {
				return &harness.Violation{Class: "accepted-inconsistent-shard", Site: site, Detail: fmt.Sprintf("holder %d stores a Paillier public key for %d that is not %d's key", i, j, j)}
			}
			cts, _ := si.EncryptedShares().Get(j)
			comps := shareComponents(sj.Share())
			if len(cts) != len(comps) {
				return &harness.Violation{Class: "accepted-inconsistent-shard", Site: site, Detail: fmt.Sprintf("holder %d stores %d encrypted components for %d, whose share has %d", i, len(cts), j, len(comps))}
			}
			for k, ct := range cts {
				pt, err := sj.PaillierSecretKey().Decrypt(ct)
				if err != nil {
					return &harness.Violation{Class: "accepted-inconsistent-shard", Site: site, Detail: fmt.Sprintf("holder %d stores an encrypted share of %d that %d cannot decrypt: %v", i, j, j, err)}
				}
				// the plaintext is 3x'+x'' over the integers (both parts in [q/3, 2q/3)): congruent to the share mod q
				if new(big.Int).Mod(pt.Value().Big(), ref.Secp256k1.Order()).Cmp(comps[k]) != 0 {
					return &harness.Violation{Class: "accepted-inconsistent-shard", Site: site, Detail: fmt.Sprintf("holder %d stores an encryption of %x as component %d of %d's share, which is not congruent to the share %x modulo the group order", i, pt.Value().Big(), k, j, comps[k])}
				}
			}
		}
	}
	return nil
}

func init() {
	c04Scenarios["aor"] = scenarioAOR
	c04Scenarios["redistribute"] = func() *c04Scenario { return scenarioRedistribute("redistribute", false, []sim.ID{12, 45, 300}) }
	c04Scenarios["redistribute-anchored"] = func() *c04Scenario {
		return scenarioRedistribute("redistribute-anchored", true, []sim.ID{12, 45, 300})
	}
	c04Scenarios["redistribute-disjoint"] = func() *c04Scenario {
		return scenarioRedistribute("redistribute-disjoint", false, []sim.ID{45, 46, 47})
	}
	c04Scenarios["lindell17-sign"] = func() *c04Scenario { return scenarioLindell17Sign("lindell17-sign", 7, 300) }
	c04Scenarios["lindell17-sign-swapped"] = func() *c04Scenario { return scenarioLindell17Sign("lindell17-sign-swapped", 300, 7) }
	c04Scenarios["lindell17-dkg"] = func() *c04Scenario { return scenarioLindell17DKG("lindell17-dkg", []sim.ID{7, 300}) }
	c04Scenarios["lindell17-dkg3"] = func() *c04Scenario { return scenarioLindell17DKG("lindell17-dkg3", c04IDs) }
	c04Scenarios["boldyreva-short-pop"] = func() *c04Scenario {
		sc := scenarioSign("boldyreva-short-pop", func() *signFlavor[*g1, *bsc] { return flavorBLSShort(bls.POP) }, c04IDs, false, 40)
		sc.canon = map[string]func([]byte) ([]byte, error){
			"agg/PARTIALUNICAST:": canonOf[*boldyreva02.PartialSignature[*g2, *f2, *g1, *f1, *gt, *bsc]](),
		}
		return sc
	}
	c04Scenarios["boldyreva-long-aug"] = func() *c04Scenario {
		sc := scenarioSign("boldyreva-long-aug", func() *signFlavor[*g2, *bsc] { return flavorBLSLong(bls.MessageAugmentation) }, c04IDs, false, 40)
		sc.canon = map[string]func([]byte) ([]byte, error){
			"agg/PARTIALUNICAST:": canonOf[*boldyreva02.PartialSignature[*g1, *f1, *g2, *f2, *gt, *bsc]](),
		}
		return sc
	}
}
