package sim

import (
	"bytes"
	"errors"
	"fmt"
	"math/rand/v2"
	"runtime"
	"sort"
	"strconv"
	"strings"
	"sync"
)

// ErrInjectedRand is returned by a Rand configured to fail.
var ErrInjectedRand = errors.New("sim: injected random source failure")

// Rand is a party's random source (io.Reader). The byte stream is a pure
// function of its seed; the fault modes change how it is handed out, never
// which bytes are consumed.
//
// Several protocols read their reader from worker goroutines they start
// themselves (errgroup in the sigma AND/OR compositions, Paillier, ...). With
// one sequential stream the assignment of bytes to workers would depend on the
// Go scheduler (a worker pre-empted under machine load swaps two proofs'
// randomness), which would make runs irreproducible. Rand therefore gives
// every library-created goroutine its own sub-stream, labelled by the
// goroutine's position in the creation tree (ordinal among the siblings of one
// parent, in creation order), which does not depend on execution order.
type Rand struct {
	mu    sync.Mutex
	seed  Seed
	src   *rand.ChaCha8            // stream of the root (caller) goroutine
	subs  map[string]*rand.ChaCha8 // streams of library-created goroutines, by label
	Calls int                      // number of Read calls
	Bytes int64                    // bytes handed out
	// ShortMax > 0: every Read returns at most 1..ShortMax bytes (legal io.Reader behaviour).
	ShortMax int
	shortRng *rand.Rand
	// FailAt > 0: the FailAt-th Read call (1-based) and every later one returns ErrInjectedRand.
	FailAt int
	Failed bool
	// RootCalls counts the Read calls of the root (caller) goroutine.
	RootCalls int
	// AltRootCall > 0: the AltRootCall-th Read call of the root goroutine (1-based) is
	// answered from an independent stream; the main stream still advances by the same
	// amount, so every other draw of the party is unchanged ("one coin flipped").
	AltRootCall int
	altSrc      *rand.ChaCha8
	// SubStreams counts distinct worker goroutines that read.
	SubStreams int
	labels     map[uint64]string          // goid -> label ("" = root)
	readers    map[uint64]map[uint64]bool // parent goid -> library-created children that read from this Rand
}

// NewRand returns a reader keyed by seed.
func NewRand(seed Seed) *Rand {
	return &Rand{seed: seed, src: rand.NewChaCha8(seed), shortRng: seed.Sub("short").Rand(), subs: map[string]*rand.ChaCha8{}}
}

func (r *Rand) Read(p []byte) (int, error) {
	r.mu.Lock()
	defer r.mu.Unlock()
	label := r.goroutineLabel()
	r.Calls++
	if r.FailAt > 0 && r.Calls >= r.FailAt {
		r.Failed = true
		return 0, ErrInjectedRand
	}
	if len(p) == 0 {
		return 0, nil
	}
	n := len(p)
	if r.ShortMax > 0 {
		k := 1 + r.shortRng.IntN(r.ShortMax)
		if k < n {
			n = k
		}
	}
	src := r.src
	if label != "" {
		src = r.subs[label]
		if src == nil {
			src = rand.NewChaCha8(r.seed.Sub("worker:" + label))
			r.subs[label] = src
			r.SubStreams++
		}
	}
	_, _ = src.Read(p[:n])
	if label == "" {
		r.RootCalls++
		if r.AltRootCall > 0 && r.RootCalls == r.AltRootCall {
			if r.altSrc == nil {
				r.altSrc = rand.NewChaCha8(r.seed.Sub(fmt.Sprintf("altcall:%d", r.AltRootCall)))
			}
			_, _ = r.altSrc.Read(p[:n])
		}
	}
	r.Bytes += int64(n)
	return n, nil
}

// ---- goroutine labels ----
//
// A goroutine started by the harness (a party's task, the test itself) is the
// root and reads the main stream. A goroutine started by library code is
// labelled by its rank, in creation (= goroutine id) order, among the children
// of the same parent that read from this Rand: the children that already read
// plus the ones that are alive right now with a smaller id (worker pools start
// all their workers before waiting, every worker of a pool runs the same code,
// and pools of one parent follow each other in time). The rank therefore does
// not depend on which worker the scheduler happens to run first. Goroutine ids
// grow in creation order because every check process runs with one P.

type gInfo struct {
	id, parent uint64
	libChild   bool   // created by library code (or errgroup on its behalf)
	creator    string // function that started it
}

// CurGoid returns the id of the calling goroutine.
func CurGoid() uint64 { return curGoid() }

func curGoid() uint64 {
	var buf [48]byte
	n := runtime.Stack(buf[:], false)
	b := bytes.TrimPrefix(buf[:n], []byte("goroutine "))
	i := bytes.IndexByte(b, ' ')
	if i < 0 {
		return 0
	}
	id, _ := strconv.ParseUint(string(b[:i]), 10, 64)
	return id
}

func isLibCreator(fn string) bool {
	return strings.HasPrefix(fn, "github.com/bronlabs/bron-crypto/") || strings.HasPrefix(fn, "golang.org/x/sync/errgroup.")
}

// parseDump extracts (goid, creator goid, created-by-library) of every goroutine in a runtime.Stack dump.
func parseDump(dump []byte) []gInfo {
	var out []gInfo
	for _, blk := range bytes.Split(dump, []byte("\n\n")) {
		blk = bytes.TrimSpace(blk)
		if !bytes.HasPrefix(blk, []byte("goroutine ")) {
			continue
		}
		rest := blk[len("goroutine "):]
		sp := bytes.IndexByte(rest, ' ')
		if sp < 0 {
			continue
		}
		id, err := strconv.ParseUint(string(rest[:sp]), 10, 64)
		if err != nil {
			continue
		}
		gi := gInfo{id: id}
		if k := bytes.LastIndex(blk, []byte("\ncreated by ")); k >= 0 {
			line := blk[k+len("\ncreated by "):]
			if e := bytes.IndexByte(line, '\n'); e >= 0 {
				line = line[:e]
			}
			if j := bytes.LastIndex(line, []byte(" in goroutine ")); j >= 0 {
				gi.parent, _ = strconv.ParseUint(string(bytes.TrimSpace(line[j+len(" in goroutine "):])), 10, 64)
				gi.creator = string(line[:j])
				gi.libChild = isLibCreator(gi.creator)
			}
		}
		out = append(out, gi)
	}
	return out
}

func stackDump(all bool) []byte {
	buf := make([]byte, 1<<15)
	for {
		n := runtime.Stack(buf, all)
		if n < len(buf) {
			return buf[:n]
		}
		buf = make([]byte, 2*len(buf))
	}
}

// goroutineLabel is called with r.mu held.
func (r *Rand) goroutineLabel() string {
	id := curGoid()
	if l, ok := r.labels[id]; ok {
		return l
	}
	if r.labels == nil {
		r.labels = map[uint64]string{}
		r.readers = map[uint64]map[uint64]bool{}
	}
	self := parseDump(stackDump(false))
	if len(self) == 0 || !self[0].libChild {
		r.labels[id] = ""
		return ""
	}
	all := parseDump(stackDump(true))
	info := map[uint64]gInfo{}
	for _, g := range all {
		info[g.id] = g
	}
	label := r.rankLabel(self[0], info, 0)
	r.labels[id] = label
	return label
}

func (r *Rand) rankLabel(g gInfo, info map[uint64]gInfo, depth int) string {
	rank := 0
	for rid := range r.readers[g.parent] {
		if rid < g.id {
			rank++
		}
	}
	for _, o := range info {
		// alive, created before me by the same pool primitive, has not read yet
		// (a long-lived helper started by the same parent, such as the router's
		// reader goroutine, is not a pool worker and must not shift the ranks)
		if o.libChild && o.parent == g.parent && o.creator == g.creator && o.id < g.id && !r.readers[g.parent][o.id] {
			rank++
		}
	}
	if r.readers[g.parent] == nil {
		r.readers[g.parent] = map[uint64]bool{}
	}
	r.readers[g.parent][g.id] = true
	label := fmt.Sprint(rank)
	if p, ok := info[g.parent]; ok && p.libChild && depth < 8 {
		pl, known := r.labels[p.id]
		if !known {
			pl = r.rankLabel(p, info, depth+1)
			r.labels[p.id] = pl
		}
		label = pl + "/" + label
	}
	return label
}

var _ = sort.Ints
var _ sync.Mutex
