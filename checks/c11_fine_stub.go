package checks

import "verif/sim"

// Indirections filled in by c11_fine.go when the binary is built with the
// instrumented router (build tag finestep).
var (
	fineAvailable bool
	fineInstall   func() any
	fineUninstall func()
	fineEvents    func(h any) []sim.Event
	fineParked    func(h any) int
	fineStats     func(h any) (int, map[string]int)
	fineDump      func(h any) string
)
