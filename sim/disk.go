package sim

import (
	"errors"
	"math/rand/v2"
)

// ErrDiskRead is an injected read error.
var ErrDiskRead = errors.New("sim: injected disk read error")

// Disk is a simulated durable store: named blobs with explicit Write/Sync; a
// crash discards whatever was not synced. Optional faults act on the durable
// image (lost write, torn write, bit flip, read error).
type Disk struct {
	durable map[string][]byte
	dirty   map[string][]byte
	Fired   map[string]int
}

func NewDisk() *Disk {
	return &Disk{durable: map[string][]byte{}, dirty: map[string][]byte{}, Fired: map[string]int{}}
}

func (d *Disk) Write(name string, b []byte) { d.dirty[name] = append([]byte(nil), b...) }

// Sync makes pending writes durable.
func (d *Disk) Sync() {
	for k, v := range d.dirty {
		d.durable[k] = v
	}
	d.dirty = map[string][]byte{}
}

// Crash drops un-synced writes.
func (d *Disk) Crash() {
	if len(d.dirty) > 0 {
		d.Fired["crash_lost_unsynced"]++
	}
	d.dirty = map[string][]byte{}
}

// Read returns the durable image (after a crash) or the latest write.
func (d *Disk) Read(name string) ([]byte, bool) {
	if b, ok := d.dirty[name]; ok {
		return append([]byte(nil), b...), true
	}
	b, ok := d.durable[name]
	return append([]byte(nil), b...), ok
}

// Corrupt applies one storage fault to the durable image of name.
func (d *Disk) Corrupt(name string, r *rand.Rand) string {
	b, ok := d.durable[name]
	if !ok || len(b) == 0 {
		return ""
	}
	switch r.IntN(4) {
	case 0:
		delete(d.durable, name)
		d.Fired["lost_write"]++
		return "lost_write"
	case 1:
		d.durable[name] = b[:r.IntN(len(b))]
		d.Fired["torn_write"]++
		return "torn_write"
	case 2:
		c := append([]byte(nil), b...)
		c[r.IntN(len(c))] ^= 1 << r.IntN(8)
		d.durable[name] = c
		d.Fired["bit_flip"]++
		return "bit_flip"
	default:
		d.Fired["short_extended"]++
		d.durable[name] = append(append([]byte(nil), b...), byte(r.IntN(256)))
		return "trailing_byte"
	}
}
