package checks

import (
	"bytes"
	"context"
	"fmt"
	"strings"
	"testing"
	"testing/synctest"

	"github.com/bronlabs/bron-crypto/pkg/base/serde"
	"github.com/bronlabs/bron-crypto/pkg/network"
	"github.com/bronlabs/bron-crypto/pkg/network/echo"
	"github.com/bronlabs/bron-crypto/pkg/network/exchange"

	"verif/cbor"
	"verif/harness"
	"verif/sim"
)

// echoMsg is the broadcast payload of the echo workload.
type echoMsg struct {
	V []byte `cbor:"v"`
}

type echoParty struct{}

func (m *echoMsg) Validate(*echoParty, sim.ID) error {
	if m == nil {
		return fmt.Errorf("nil message")
	}
	return nil
}

// RunEcho is workload C11/echo: real echo broadcast (through exchange.BroadcastExchange
// or echo.ExchangeEchoBroadcast) among 3-7 parties over routers; in most runs one
// broadcaster equivocates (different payloads to different recipients) and may also lie
// in its echoes. Oracle: no two honest parties accept different payloads from the same
// sender; without a Byzantine party everybody obtains everybody's payload.
func RunEcho(rc *harness.RunCtx) (out harness.Outcome) {
	synctest.Test(rc.T, func(t *testing.T) { out = runEcho(rc) })
	return out
}

func runEcho(rc *harness.RunCtx) harness.Outcome {
	w := rc.Seed.Sub("workload").Rand()
	n := 3 + w.IntN(5)
	ids := sortedIDs(pickIDs(w, n))
	byz := w.IntN(5) != 0
	var c sim.ID
	if byz {
		c = ids[w.IntN(n)]
	}
	useExchange := w.IntN(2) == 0
	probes := map[string]int{}
	pr := newProtoRun(rc, ids, true)
	// equivocation plan: every recipient gets one of k variants of c's payload
	variant := map[sim.ID]int{}
	k := 2 + w.IntN(2)
	lieEcho := byz && w.IntN(3) == 0
	lieAbout := ids[w.IntN(n)]
	lieTo := map[sim.ID]bool{}
	if byz {
		for _, id := range ids {
			if id != c {
				variant[id] = w.IntN(k)
				lieTo[id] = w.IntN(2) == 0
			}
		}
	}
	payloadOf := func(id sim.ID, v int) []byte {
		return []byte(fmt.Sprintf("payload-of-%d-variant-%d", id, v))
	}
	if byz {
		pr.cl.Net.OnSend = func(m *sim.Msg) []*sim.Msg {
			if m.From != c {
				return []*sim.Msg{m}
			}
			env, err := cbor.Parse(m.Bytes)
			if err != nil {
				return []*sim.Msg{m}
			}
			cl, ok1 := env.Find(".correlationID")
			pl, ok2 := env.Find(".payload")
			if !ok1 || !ok2 {
				return []*sim.Msg{m}
			}
			cid := string(cl.Node.Bytes)
			switch {
			case strings.HasSuffix(cid, echoR1Suffix):
				r1, err := cbor.Parse(pl.Node.Bytes)
				if err != nil {
					return []*sim.Msg{m}
				}
				in, ok := r1.Find(".payload")
				if !ok {
					return []*sim.Msg{m}
				}
				nb, _ := serde.MarshalCBOR(&echoMsg{V: payloadOf(c, variant[m.To])})
				in.Node.Bytes = nb
				pl.Node.Bytes = r1.Encode()
				m.Bytes = env.Encode()
				probes["equivocated_round1_copies"]++
			case strings.HasSuffix(cid, echoR2Suffix) && lieEcho && lieTo[m.To]:
				r2, err := cbor.Parse(pl.Node.Bytes)
				if err != nil {
					return []*sim.Msg{m}
				}
				changed := false
				r2.Walk(func(l cbor.Leaf) {
					if l.Node.Major == 2 && len(l.Node.Bytes) == 32 && strings.Contains(l.Path, fmt.Sprintf("{%d}", lieAbout)) {
						l.Node.Bytes[0] ^= 0x5a
						changed = true
					}
				})
				if changed {
					pl.Node.Bytes = r2.Encode()
					m.Bytes = env.Encode()
					probes["lied_in_echo"]++
				}
			}
			return []*sim.Msg{m}
		}
	}
	for _, id := range ids {
		id := id
		pr.start(script{name: fmt.Sprintf("E@%d", id), party: id, fn: func(ctx context.Context, rt *network.Router) (any, error) {
			msg := &echoMsg{V: payloadOf(id, 0)}
			if useExchange {
				return exchange.BroadcastExchange[*echoMsg, *echoParty](ctx, rt.Namespaced("e"), "R", quorumOf(ids), msg)
			}
			return echo.ExchangeEchoBroadcast[*echoMsg, *echoParty](ctx, rt.Namespaced("e"), "R", quorumOf(ids), msg)
		}})
	}
	if err := pr.run(); err != nil {
		pr.finish()
		return harness.Outcome{HarnessErr: err}
	}
	var viol *harness.Violation
	accepted := map[sim.ID]map[sim.ID][]byte{} // receiver -> sender -> payload
	for _, id := range ids {
		t := pr.tasks[fmt.Sprintf("E@%d", id)]
		if !t.Done() {
			if !byz && viol == nil {
				viol = pr.livenessViolation("echo")
			}
			continue
		}
		if p, st := t.Panic(); p != nil && viol == nil {
			viol = &harness.Violation{Class: "panic", Site: "echo", Detail: fmt.Sprintf("party %d panicked: %v %s", id, p, firstLines(st, 8))}
		}
		o, err := t.Result()
		if err != nil {
			if !byz && viol == nil {
				viol = &harness.Violation{Class: "honest-run-error", Site: "echo", Detail: fmt.Sprintf("party %d: %s", id, oneLineErr(err))}
			}
			probes["rejected"]++
			continue
		}
		got := map[sim.ID][]byte{}
		for s, m := range o.(network.RoundMessages[*echoMsg, *echoParty]).Iter() {
			got[s] = m.V
		}
		accepted[id] = got
		probes["accepted"]++
	}
	pr.finish()
	if viol == nil {
		// consistency: no two honest parties accept different payloads from the same sender
		for _, a := range ids {
			for _, b := range ids {
				if a >= b || a == c || b == c || accepted[a] == nil || accepted[b] == nil {
					continue
				}
				for _, s := range ids {
					pa, oka := accepted[a][s]
					pb, okb := accepted[b][s]
					if oka && okb && !bytes.Equal(pa, pb) {
						viol = &harness.Violation{Class: "inconsistent-broadcast", Site: "echo", Detail: fmt.Sprintf("n=%d: honest parties %d and %d accepted different payloads from sender %d (%q vs %q); equivocation plan %v", n, a, b, s, pa, pb, variant)}
					}
				}
			}
		}
	}
	if viol == nil && !byz {
		for _, a := range ids {
			for _, s := range ids {
				if s != a && !bytes.Equal(accepted[a][s], payloadOf(s, 0)) {
					viol = &harness.Violation{Class: "wrong-broadcast-payload", Site: "echo", Detail: fmt.Sprintf("party %d obtained %q from %d", a, accepted[a][s], s)}
				}
			}
		}
	}
	for kk, v := range pr.probes {
		probes[kk] += v
	}
	if byz {
		distinct := map[int]bool{}
		for _, v := range variant {
			distinct[v] = true
		}
		if len(distinct) > 1 {
			probes["runs_with_real_equivocation"]++
		}
	}
	class := fmt.Sprintf("echo n=%d byz=%v exchange=%v lie=%v %s", n, byz, useExchange, lieEcho, pr.netClass())
	sample := map[string]any{"workload": "echo", "config": class, "ids": ids, "byzantine": c, "variants": fmt.Sprint(variant), "trace_head": head(pr.cl.Trace, 8)}
	return harness.Outcome{Violation: viol, Class: class, NonTrivial: pr.nontrivial() || byz, Trace: pr.cl.Trace, Stats: pr.cl.Stats, Probes: probes, Sample: sample, Digest: fmt.Sprint(len(accepted))}
}
