package cbor

import (
	"bytes"
	"encoding/hex"
	"testing"
)

func TestRoundTrip(t *testing.T) {
	for _, h := range []string{"a26161016162820203", "d8184443010203", "a1646e616d65581fa26161016162820203a26161016162820203a26161016162820203aabbccdd", "f6", "1903e8", "3903e7", "a16170581ba1616158164401020304440102030444010203044401020304aabb"} {
		b, _ := hex.DecodeString(h)
		n, err := ParseDeep(b)
		if err != nil {
			t.Fatalf("%s: %v", h, err)
		}
		if !bytes.Equal(n.Encode(), b) {
			t.Fatalf("%s: re-encoding differs: %x", h, n.Encode())
		}
		if !bytes.Equal(n.Clone().Encode(), b) {
			t.Fatalf("%s: clone differs", h)
		}
	}
}
