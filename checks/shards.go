package checks

import (
	"bytes"
	"fmt"
	"math/big"
	"math/rand/v2"

	"github.com/bronlabs/bron-crypto/pkg/base/algebra"
	"github.com/bronlabs/bron-crypto/pkg/base/serde"
	"github.com/bronlabs/bron-crypto/pkg/mpc"

	"verif/harness"
	"verif/ref"
	"verif/sim"
)

// keyFacts is what the shard oracle learns (and later epochs must preserve).
type keyFacts struct {
	secret *big.Int  // reconstructed by the reference solver
	pk     ref.Point // reference form of the public key (zero value if no reference curve)
	pkBytes []byte   // library encoding of the public key
}

// liftRef computes [k]G with the reference curve, or with the library when no
// reference model exists (semi-independent; recorded by the caller).
func pointsEqualScalar[G algebra.PrimeGroupElement[G, S], S algebra.PrimeFieldElement[S]](kit *groupKit[G, S], k *big.Int, want G) (bool, error) {
	if kit.refc != nil {
		w, err := kit.toRef(want)
		if err != nil {
			return false, err
		}
		return ref.Equal(ref.Mul(kit.refc, k, kit.refc.Gen()), w), nil
	}
	buf := make([]byte, len(kit.sf().One().Bytes()))
	k.FillBytes(buf)
	s, err := kit.sf().FromBytes(buf)
	if err != nil {
		return false, err
	}
	return kit.group.ScalarBaseOp(s).Equal(want), nil
}

// checkShards is the key-consistency oracle of C03 and C06.
// Every subset of holders is examined when n <= 5, a seeded sample otherwise.
func checkShards[G algebra.PrimeGroupElement[G, S], S algebra.PrimeFieldElement[S]](
	kit *groupKit[G, S], spec *acSpec, shards map[sim.ID]*mpc.BaseShard[G, S], w *rand.Rand, site string, probes map[string]int,
) (*keyFacts, *harness.Violation) {
	fail := func(class, f string, a ...any) (*keyFacts, *harness.Violation) {
		return nil, &harness.Violation{Class: class, Site: site, Detail: fmt.Sprintf(f, a...)}
	}
	ids := spec.ids
	for _, id := range ids {
		if shards[id] == nil {
			return fail("missing-shard", "holder %d has no shard", id)
		}
	}
	first := shards[ids[0]]
	pm0, err := serde.MarshalCBOR(&first.BasePublicMaterial)
	if err != nil {
		return fail("encode-error", "public material of %d: %v", ids[0], err)
	}
	for _, id := range ids {
		sh := shards[id]
		pm, err := serde.MarshalCBOR(&sh.BasePublicMaterial)
		if err != nil {
			return fail("encode-error", "public material of %d: %v", id, err)
		}
		if !bytes.Equal(pm, pm0) {
			return fail("public-material-mismatch", "holders %d and %d hold different public material (MSP / verification vector)", ids[0], id)
		}
		if !sh.PublicKeyValue().Equal(first.PublicKeyValue()) {
			return fail("public-key-mismatch", "holders %d and %d report different public keys", ids[0], id)
		}
		if sh.Share().ID() != id {
			return fail("share-id-mismatch", "shard of %d carries share id %d", id, sh.Share().ID())
		}
	}
	md, err := extractMSP(first.MSP())
	if err != nil {
		return fail("msp-extract", "%v", err)
	}
	// the MSP must be over exactly the holders of the structure
	hs := map[sim.ID]bool{}
	for _, h := range md.holder {
		hs[h] = true
	}
	if len(hs) != len(ids) {
		return fail("msp-holders", "MSP rows belong to %d holders, structure has %d", len(hs), len(ids))
	}
	comps := map[sim.ID][]*big.Int{}
	for _, id := range ids {
		if !hs[id] {
			return fail("msp-holders", "holder %d owns no MSP row", id)
		}
		sh := shards[id]
		comps[id] = shareComponents(sh.Share())
		rows := md.rowsOf(id)
		if len(rows) != len(comps[id]) {
			return fail("share-shape", "holder %d owns %d MSP rows but its share has %d components", id, len(rows), len(comps[id]))
		}
		if len(rows) > 1 {
			probes["multi_row_holder"]++
		}
		// private share vs published public share
		pks, ok := first.PublicKeyShares().Get(id)
		if !ok {
			return fail("public-share-missing", "no public key share published for %d", id)
		}
		pv := pks.Value()
		if len(pv) != len(comps[id]) {
			return fail("public-share-shape", "public share of %d has %d components, private share %d", id, len(pv), len(comps[id]))
		}
		for k := range pv {
			eq, err := pointsEqualScalar(kit, comps[id][k], pv[k])
			if err != nil {
				return fail("point-convert", "%v", err)
			}
			if !eq {
				return fail("share-vs-public-share", "holder %d component %d: [share]G differs from the published public share", id, k)
			}
		}
	}
	// subsets
	n := len(ids)
	var masks []uint32
	for m := uint32(1); m < 1<<n; m++ {
		masks = append(masks, m)
	}
	if n > 5 {
		w.Shuffle(len(masks), func(i, j int) { masks[i], masks[j] = masks[j], masks[i] })
		masks = append(masks[:40], (1<<n)-1)
	}
	var secret *big.Int
	for _, m := range masks {
		set := maskSet(ids, m)
		want := spec.qualified(idSet(set))
		x, spans, err := md.reconstruct(set, comps)
		if err != nil {
			return fail("share-shape", "%v", err)
		}
		if spans != want {
			return fail("qualification-mismatch", "%s: subset %v is qualified=%v by the policy but the MSP rows span e0=%v", spec.desc, set, want, spans)
		}
		if first.MSP().Accepts(set...) != want {
			return fail("accepts-mismatch", "%s: MSP.Accepts(%v)=%v, policy says %v", spec.desc, set, !want, want)
		}
		if !want {
			probes["unqualified_subsets"]++
			continue
		}
		probes["qualified_subsets"]++
		if secret == nil {
			secret = x
		} else if secret.Cmp(x) != 0 {
			return fail("reconstruction-inconsistent", "%s: qualified subsets reconstruct different secrets (subset %v)", spec.desc, set)
		}
		eq, err := pointsEqualScalar(kit, x, first.PublicKeyValue())
		if err != nil {
			return fail("point-convert", "%v", err)
		}
		if !eq {
			return fail("secret-vs-public-key", "%s: subset %v reconstructs a secret whose public value differs from the reported public key", spec.desc, set)
		}
	}
	if secret == nil {
		return fail("no-qualified-subset", "%s: no examined subset was qualified", spec.desc)
	}
	kf := &keyFacts{secret: secret, pkBytes: first.PublicKeyValue().Bytes()}
	if kit.refc != nil {
		kf.pk, _ = kit.toRef(first.PublicKeyValue())
	} else {
		probes["semi_independent_group"]++
	}
	return kf, nil
}

// persistReload stores every shard on the simulated disk, crashes, reloads and
// checks that the key material survives unchanged (or, with storage faults,
// that a reload either fails or yields an equal shard).
// pmReuse is one long-lived public-material variable that an application (an
// aggregator, a watch-only node) decodes into again and again.
type pmReuse[G algebra.PrimeGroupElement[G, S], S algebra.PrimeFieldElement[S]] struct {
	pm   mpc.BasePublicMaterial[G, S]
	used int
}

// reloadPublicMaterial decodes the stored public material of sh into the reused
// receiver and checks that every accessor reports what was stored.
func reloadPublicMaterial[G algebra.PrimeGroupElement[G, S], S algebra.PrimeFieldElement[S]](r *pmReuse[G, S], sh *mpc.BaseShard[G, S], id sim.ID, site string, probes map[string]int) *harness.Violation {
	enc, err := serde.MarshalCBOR(&sh.BasePublicMaterial)
	if err != nil {
		return &harness.Violation{Class: "encode-error", Site: site, Detail: err.Error()}
	}
	if err := r.pm.UnmarshalCBOR(enc); err != nil {
		return &harness.Violation{Class: "reload-failed", Site: site, Detail: fmt.Sprintf("public material of %d does not reload into a reused receiver: %v", id, err)}
	}
	r.used++
	if !r.pm.PublicKeyValue().Equal(sh.PublicKeyValue()) {
		return &harness.Violation{Class: "reload-changed-key", Site: site, Detail: fmt.Sprintf("public material reloaded into a receiver that had held other key material reports another public key than the one stored (holder %d, %d-th use of the receiver)", id, r.used)}
	}
	want, ok1 := sh.PublicKeyShares().Get(id)
	got, ok2 := r.pm.PublicKeyShares().Get(id)
	if !ok1 || !ok2 || !want.Equal(got) {
		return &harness.Violation{Class: "reload-changed-public-share", Site: site, Detail: fmt.Sprintf("public material reloaded into a reused receiver reports another public share for %d than the one stored", id)}
	}
	enc2, err := serde.MarshalCBOR(&r.pm)
	if err != nil || !bytes.Equal(enc, enc2) {
		return &harness.Violation{Class: "reencode-changed", Site: site, Detail: fmt.Sprintf("re-encoding the reloaded public material of %d gives different bytes", id)}
	}
	probes["public_material_reloaded_into_reused_receiver"]++
	return nil
}

func persistReload[G algebra.PrimeGroupElement[G, S], S algebra.PrimeFieldElement[S]](
	kit *groupKit[G, S], shards map[sim.ID]*mpc.BaseShard[G, S], ids []sim.ID, w *rand.Rand, diskFaults bool, site string, probes map[string]int,
) (map[sim.ID]*mpc.BaseShard[G, S], *harness.Violation) {
	fail := func(class, f string, a ...any) (map[sim.ID]*mpc.BaseShard[G, S], *harness.Violation) {
		return nil, &harness.Violation{Class: class, Site: site, Detail: fmt.Sprintf(f, a...)}
	}
	out := map[sim.ID]*mpc.BaseShard[G, S]{}
	for _, id := range ids {
		disk := sim.NewDisk()
		enc, err := serde.MarshalCBOR(shards[id])
		if err != nil {
			return fail("encode-error", "shard of %d: %v", id, err)
		}
		name := fmt.Sprintf("shard-%d", id)
		disk.Write(name, enc)
		synced := true
		if diskFaults && w.IntN(4) == 0 {
			synced = false // crash before sync: the write is lost, the party has nothing to reload
		} else {
			disk.Sync()
		}
		disk.Crash()
		fault := ""
		if diskFaults && synced && w.IntN(2) == 0 {
			fault = disk.Corrupt(name, w)
		}
		for k, v := range disk.Fired {
			probes["disk_"+k] += v
		}
		img, ok := disk.Read(name)
		if !ok {
			if !diskFaults {
				return fail("durability", "synced shard of %d not readable after crash", id)
			}
			probes["reload_nothing_durable"]++
			out[id] = shards[id] // the party keeps using a backup: not part of the check
			continue
		}
		re, err := func() (sh *mpc.BaseShard[G, S], err error) {
			defer func() {
				if r := recover(); r != nil {
					err = fmt.Errorf("PANIC: %v", r)
				}
			}()
			return serde.UnmarshalCBOR[*mpc.BaseShard[G, S]](img)
		}()
		if err != nil {
			if fault == "" {
				return fail("reload-failed", "shard of %d does not reload from its own encoding: %v", id, err)
			}
			if len(err.Error()) >= 6 && err.Error()[:6] == "PANIC:" {
				return fail("reload-panic", "decoding a damaged shard image (%s) of %d panicked: %v", fault, id, err)
			}
			probes["damaged_image_rejected"]++
			out[id] = shards[id]
			continue
		}
		if fault != "" {
			// accepted although damaged: storage integrity is the application's job, so
			// the decoded shard may differ from the stored one, but it must be
			// self-consistent: its private share must match the public share it reports.
			if v := selfConsistent(kit, re, id, site); v != nil {
				return nil, v
			}
			if !re.Equal(shards[id]) {
				probes["damaged_image_accepted_selfconsistent"]++
				out[id] = shards[id]
				continue
			}
			probes["damaged_image_equal"]++
		}
		if !re.Equal(shards[id]) {
			return fail("reload-changed", "reloaded shard of %d differs from the stored one", id)
		}
		enc2, err := serde.MarshalCBOR(re)
		if err != nil {
			return fail("encode-error", "re-encoding shard of %d: %v", id, err)
		}
		if fault == "" && !bytes.Equal(enc, enc2) {
			return fail("reencode-changed", "re-encoding the reloaded shard of %d gives different bytes", id)
		}
		probes["reloaded"]++
		out[id] = re
	}
	return out, nil
}

// selfConsistent: the private share of a shard lifts to the public share the
// same shard reports for its holder (reference arithmetic).
func selfConsistent[G algebra.PrimeGroupElement[G, S], S algebra.PrimeFieldElement[S]](kit *groupKit[G, S], sh *mpc.BaseShard[G, S], id sim.ID, site string) *harness.Violation {
	pks, ok := sh.PublicKeyShares().Get(sh.Share().ID())
	if !ok {
		return &harness.Violation{Class: "accepted-inconsistent-shard", Site: site, Detail: fmt.Sprintf("accepted shard of %d reports no public share for its own holder", id)}
	}
	comps := shareComponents(sh.Share())
	pv := pks.Value()
	if len(pv) != len(comps) {
		return &harness.Violation{Class: "accepted-inconsistent-shard", Site: site, Detail: fmt.Sprintf("accepted shard of %d: %d private vs %d public components", id, len(comps), len(pv))}
	}
	for k := range pv {
		eq, err := pointsEqualScalar(kit, comps[k], pv[k])
		if err != nil || !eq {
			return &harness.Violation{Class: "accepted-inconsistent-shard", Site: site, Detail: fmt.Sprintf("accepted shard of %d: private share component %d does not match the public share the shard reports (%v)", id, k, err)}
		}
	}
	return nil
}
