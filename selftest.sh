#!/bin/sh
# Determinism self-test: the same VERIF_SEED must give the same per-run digests
# (decision trace + outputs) at different worker counts and under machine load.
# usage: ./selftest.sh <property> [seed]
cd "$(dirname "$0")" || exit 2
P=$1; S=${2:-1}; T=${3:-quick}
mkdir -p .build/selftest
rc=0
for W in 16 5 16; do
  VERIF_SEED=$S VERIF_WORKERS=$W VERIF_FINGERPRINT_OUT=.build/selftest/$P-$S-$W-$$.txt ./check $P $T > .build/selftest/$P-$S-$W.log 2>&1 || { echo "check failed at W=$W"; tail -5 .build/selftest/$P-$S-$W.log; rc=1; }
  if [ -f .build/selftest/$P-$S-16-$$.txt ] && [ -f .build/selftest/$P-$S-$W-$$.txt ]; then
    if ! cmp -s .build/selftest/$P-$S-16-$$.txt .build/selftest/$P-$S-$W-$$.txt; then
      echo "NON-DETERMINISTIC: $P seed $S differs between 16 and $W workers:"; diff .build/selftest/$P-$S-16-$$.txt .build/selftest/$P-$S-$W-$$.txt | head -10; rc=1
    fi
  fi
done
[ $rc = 0 ] && echo "deterministic: $P seed $S ($(wc -l < .build/selftest/$P-$S-16-$$.txt) runs, 3 executions)"
exit $rc
