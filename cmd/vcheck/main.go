// vcheck is the driver of every check: it rebuilds the harness against the
// current /repo tree, fans simulated runs out over single-threaded worker
// processes, merges their partial results into /verif/evidence/<id>.json and
// maps the outcome to the interface (exit 0 / exit 1 + VIOLATION line / exit 2
// for build or harness trouble).
package main

import (
	"bytes"
	"crypto/sha256"
	"encoding/json"
	"fmt"
	"os"
	"os/exec"
	"path/filepath"
	"runtime"
	"sort"
	"strconv"
	"strings"
	"sync"
	"time"

	"verif/harness"
)

var verifDir = func() string {
	if d := os.Getenv("VERIF_DIR"); d != "" {
		return d
	}
	return "/verif"
}()

func env() []string {
	e := os.Environ()
	e = append(e, "GOFLAGS=-mod=mod", "GOPROXY=off", "GOSUMDB=off", "GOTOOLCHAIN=local", "GOWORK=off")
	return e
}

func die2(format string, a ...any) {
	fmt.Printf("HARNESS-ERROR "+format+"\n", a...)
	os.Exit(2)
}

func main() {
	if len(os.Args) < 2 {
		fmt.Println("usage: check <property> [quick|thorough] | check replay <file> | check build")
		os.Exit(2)
	}
	switch os.Args[1] {
	case "build":
		build(false)
		build(true)
		return
	case "replay":
		if len(os.Args) < 3 {
			die2("replay needs a file")
		}
		replay(os.Args[2])
		return
	}
	prop := os.Args[1]
	tier := "quick"
	if len(os.Args) > 2 {
		tier = os.Args[2]
	}
	if t := os.Getenv("VERIF_TIER"); t != "" && len(os.Args) <= 2 {
		tier = t
	}
	meta, ok := propMeta[prop]
	if !ok {
		die2("unknown or unclaimed property %q", prop)
	}
	run(prop, tier, meta)
}

func goTool() string {
	if p, err := exec.LookPath("go1.26.8"); err == nil {
		return p
	}
	return "/opt/veriftools/go1.26.8/bin/go"
}

// build compiles the test binary from the current /repo tree. fine=true builds
// the variant with the instrumented pkg/network overlay (fine-step mode).
func build(fine bool) string {
	out := filepath.Join(verifDir, ".build", "checks.test")
	args := []string{"test", "-c", "-tags", "purego,verif", "-o", out}
	if fine {
		out = filepath.Join(verifDir, ".build", "checks-fine.test")
		ov, err := makeOverlay()
		if err != nil {
			fmt.Printf("HARNESS-WARNING fine-step instrumentation failed: %v\n", err)
			return ""
		}
		args = []string{"test", "-c", "-tags", "purego,verif,finestep", "-overlay", ov, "-o", out}
	}
	args = append(args, "./checks")
	_ = os.MkdirAll(filepath.Join(verifDir, ".build"), 0o755)
	cmd := exec.Command(goTool(), args...)
	cmd.Dir = verifDir
	cmd.Env = env()
	var buf bytes.Buffer
	cmd.Stdout, cmd.Stderr = &buf, &buf
	if err := cmd.Run(); err != nil {
		if fine {
			fmt.Printf("HARNESS-WARNING fine-step build failed: %v\n%s\n", err, buf.String())
			return ""
		}
		die2("build failed: %v\n%s", err, buf.String())
	}
	return out
}

func makeOverlay() (string, error) {
	dir := filepath.Join(verifDir, ".build", "overlay")
	_ = os.MkdirAll(dir, 0o755)
	cmd := exec.Command(goTool(), "run", "./inst", "-repo", "/repo", "-out", dir)
	cmd.Dir = verifDir
	cmd.Env = env()
	var buf bytes.Buffer
	cmd.Stdout, cmd.Stderr = &buf, &buf
	if err := cmd.Run(); err != nil {
		return "", fmt.Errorf("%v: %s", err, buf.String())
	}
	return filepath.Join(dir, "overlay.json"), nil
}

func seedFromEnv() int64 {
	if v := os.Getenv("VERIF_SEED"); v != "" {
		if n, err := strconv.ParseInt(v, 10, 64); err == nil {
			return n
		}
	}
	return 1
}

func run(prop, tier string, meta Meta) {
	start := time.Now()
	seed := seedFromEnv()
	fmt.Printf("VERIF_SEED=%d property=%s tier=%s\n", seed, prop, tier)
	bin := build(false)
	fineBin := ""
	if meta.FineStep {
		fineBin = build(true)
	}
	workers := runtime.NumCPU()
	if workers > 16 {
		workers = 16
	}
	if v := os.Getenv("VERIF_WORKERS"); v != "" {
		if n, err := strconv.Atoi(v); err == nil && n > 0 {
			workers = n
		}
	}
	outDir := filepath.Join(verifDir, ".build", "out", prop+"-"+tier)
	_ = os.RemoveAll(outDir)
	_ = os.MkdirAll(outDir, 0o755)

	budget := meta.QuickBudgetS
	if tier == "thorough" {
		budget = meta.ThoroughBudgetS
	}
	if v := os.Getenv("VERIF_BUDGET_S"); v != "" {
		if n, err := strconv.Atoi(v); err == nil && n > 0 {
			budget = n
		}
	}
	watchdog := time.Duration(budget)*time.Second*3 + 20*time.Minute

	type wres struct {
		idx  int
		code int
		log  string
		res  *harness.WorkerResult
		fine bool
	}
	var mu sync.Mutex
	var results []wres
	var wg sync.WaitGroup
	launch := func(idx, of int, binary string, fine bool) {
		defer wg.Done()
		name := fmt.Sprintf("worker-%d", idx)
		if fine {
			name = fmt.Sprintf("fine-%d", idx)
		}
		outPath := filepath.Join(outDir, name+".json")
		logPath := filepath.Join(outDir, name+".log")
		cmd := exec.Command(binary, "-test.run", "^Test"+prop+"$", "-test.cpu", "1", "-test.timeout", "0", "-test.count", "1")
		cmd.Dir = filepath.Join(verifDir, "checks")
		e := append(env(), "VERIF_PROP="+prop, "VERIF_TIER="+tier, fmt.Sprintf("VERIF_SEED=%d", seed),
			fmt.Sprintf("VERIF_WORKER=%d", idx), fmt.Sprintf("VERIF_WORKERS=%d", of), "VERIF_OUT="+outPath,
			fmt.Sprintf("VERIF_BUDGET_S=%d", budget), "GODEBUG=asyncpreemptoff=1")
		if fine {
			e = append(e, "VERIF_FINE=1")
		}
		cmd.Env = e
		lf, _ := os.Create(logPath)
		cmd.Stdout, cmd.Stderr = lf, lf
		done := make(chan error, 1)
		if err := cmd.Start(); err != nil {
			lf.Close()
			mu.Lock()
			results = append(results, wres{idx: idx, code: 2, log: err.Error(), fine: fine})
			mu.Unlock()
			return
		}
		go func() { done <- cmd.Wait() }()
		code := 0
		select {
		case err := <-done:
			if err != nil {
				if ee, ok := err.(*exec.ExitError); ok {
					code = ee.ExitCode()
				} else {
					code = 2
				}
			}
		case <-time.After(watchdog):
			_ = cmd.Process.Kill()
			<-done
			code = 99
		}
		lf.Close()
		lb, _ := os.ReadFile(logPath)
		r := wres{idx: idx, code: code, log: string(lb), fine: fine}
		if b, err := os.ReadFile(outPath); err == nil {
			var wr harness.WorkerResult
			if json.Unmarshal(b, &wr) == nil {
				r.res = &wr
			}
		}
		mu.Lock()
		results = append(results, r)
		mu.Unlock()
	}
	nFine := 0
	if fineBin != "" && meta.FineStep {
		nFine = workers / 4
		if nFine < 1 {
			nFine = 1
		}
	}
	for i := 0; i < workers; i++ {
		wg.Add(1)
		if i < nFine {
			go launch(i, nFine, fineBin, true)
		} else {
			go launch(i-nFine, workers-nFine, bin, false)
		}
	}
	wg.Wait()
	sort.Slice(results, func(i, j int) bool { return results[i].idx < results[j].idx })

	// merge
	merged := harness.WorkerResult{Property: prop, PerWorkload: map[string]int{}, Fired: map[string]int{}, Probes: map[string]int{}, Cells: map[string]int{}}
	distinct := map[string]bool{}
	var violLines, knownLines, runDigests []string
	harnessTrouble := ""
	for _, r := range results {
		if r.res == nil {
			harnessTrouble = fmt.Sprintf("worker %d produced no result (exit %d); log tail:\n%s", r.idx, r.code, tail(r.log, 40))
			if strings.Contains(r.log, "panic:") || strings.Contains(r.log, "fatal error:") {
				if meta.CrashIsViolation {
					cur, _ := os.ReadFile(filepath.Join(outDir, fmt.Sprintf("worker-%d.json.current", r.idx)))
					p := filepath.Join(verifDir, "replays", fmt.Sprintf("%s-crash-s%d-w%d.json", prop, seed, r.idx))
					_ = os.MkdirAll(filepath.Dir(p), 0o755)
					_ = os.WriteFile(p, cur, 0o644)
					violLines = append(violLines, fmt.Sprintf("VIOLATION property=%s replay=%s\n  class=process-crash detail=%s", prop, p, firstLine(r.log, "panic:", "fatal error:")))
					harnessTrouble = ""
				}
			}
			continue
		}
		wr := r.res
		if wr.HarnessErr != "" {
			harnessTrouble = fmt.Sprintf("worker %d: %s", r.idx, wr.HarnessErr)
		}
		merged.Evaluations += wr.Evaluations
		merged.Skipped += wr.Skipped
		for _, h := range wr.Distinct {
			distinct[h] = true
		}
		addMap(merged.PerWorkload, wr.PerWorkload)
		addMap(merged.Fired, wr.Fired)
		addMap(merged.Probes, wr.Probes)
		addMap(merged.Cells, wr.Cells)
		merged.Steps += wr.Steps
		merged.Delivered += wr.Delivered
		merged.NonFIFO += wr.NonFIFO
		merged.SimTimeS += wr.SimTimeS
		if len(merged.Samples) < 6 {
			merged.Samples = append(merged.Samples, wr.Samples...)
		}
		for i, v := range wr.Violations {
			p := ""
			if i < len(wr.ReplayFiles) {
				p = wr.ReplayFiles[i]
			}
			violLines = append(violLines, fmt.Sprintf("VIOLATION property=%s replay=%s\n  class=%s site=%s detail=%s", prop, p, v.Class, v.Site, oneLine(v.Detail)))
		}
		for _, k := range wr.Known {
			knownLines = append(knownLines, k)
		}
		runDigests = append(runDigests, wr.RunDigests...)
	}
	knownLines = uniq(knownLines)
	wall := time.Since(start).Seconds()

	if harnessTrouble != "" && len(violLines) == 0 {
		die2("%s", harnessTrouble)
	}
	if merged.Evaluations == 0 && len(violLines) == 0 {
		die2("no run was evaluated")
	}

	// evidence
	var zeroProbes []string
	for _, p := range meta.ExpectedProbes {
		if merged.Probes[p] == 0 && merged.Fired[p] == 0 {
			zeroProbes = append(zeroProbes, p)
		}
	}
	samples := merged.Samples
	if len(samples) == 0 {
		samples = []any{"(no sample recorded)"}
	}
	cov := map[string]any{
		"evaluations":         merged.Evaluations,
		"distinct_nontrivial": len(distinct),
		"rule":                meta.Rule,
		"samples":             samples,
		"per_workload":        merged.PerWorkload,
		"trivially_passed_refused_configurations": merged.Skipped,
		"faults_fired":        merged.Fired,
		"reach_probes":        merged.Probes,
		"probes_stuck_at_zero": zeroProbes,
		"scheduler_steps":     merged.Steps,
		"messages_delivered":  merged.Delivered,
		"non_fifo_deliveries": merged.NonFIFO,
		"simulated_time_s":    merged.SimTimeS,
		"runs_per_hour":       float64(merged.Evaluations) / wall * 3600,
		"seeds_per_hour":      3600 / wall,
		"workers":             workers,
		"components_real":     meta.Real,
		"components_stub":     meta.Stub,
		"known_findings_seen": knownLines,
		"exhaustive":          false,
	}
	if len(merged.Cells) > 0 {
		cov["cells_visited"] = len(merged.Cells)
		cov["cell_visits"] = merged.Cells
	}
	ev := map[string]any{
		"property_id": prop,
		"tier":        tier,
		"seed":        seed,
		"level":       meta.Level,
		"coverage":    cov,
		"assumptions": meta.Assumptions,
		"wall_s":      wall,
		"violations":  len(violLines),
	}
	sort.Strings(runDigests)
	fp := sha256.Sum256([]byte(strings.Join(runDigests, "\n")))
	cov["determinism_fingerprint"] = fmt.Sprintf("%x", fp[:8])
	if fpOut := os.Getenv("VERIF_FINGERPRINT_OUT"); fpOut != "" {
		_ = os.WriteFile(fpOut, []byte(strings.Join(runDigests, "\n")+"\n"), 0o644)
	}
	_ = os.MkdirAll(filepath.Join(verifDir, "evidence"), 0o755)
	b, _ := json.MarshalIndent(ev, "", " ")
	if err := os.WriteFile(filepath.Join(verifDir, "evidence", prop+".json"), b, 0o644); err != nil {
		die2("cannot write evidence: %v", err)
	}
	for _, k := range knownLines {
		fmt.Println(k)
	}
	fmt.Printf("property=%s tier=%s evaluations=%d distinct_nontrivial=%d violations=%d wall=%.1fs\n", prop, tier, merged.Evaluations, len(distinct), len(violLines), wall)
	if len(zeroProbes) > 0 {
		fmt.Printf("WARNING reach probes at zero: %v\n", zeroProbes)
	}
	if n := merged.Probes["budget_cutoff"]; n > 0 {
		fmt.Printf("NOTE time budget reached: %d of %d workers stopped before the end of their batch (thorough tier only; evaluations above is what was covered)\n", n, workers)
	}
	if len(violLines) > 0 {
		for _, l := range violLines {
			fmt.Println(l)
		}
		os.Exit(1)
	}
	os.Exit(0)
}

func replay(path string) {
	b, err := os.ReadFile(path)
	if err != nil {
		die2("cannot read %s: %v", path, err)
	}
	var rep harness.Replay
	if err := json.Unmarshal(b, &rep); err != nil {
		die2("bad replay file: %v", err)
	}
	meta := propMeta[rep.Property]
	bin := build(false)
	envx := []string{}
	if strings.HasSuffix(rep.Workload, "-fine") && meta.FineStep {
		bin = build(true)
		envx = append(envx, "VERIF_FINE=1")
	}
	abs, _ := filepath.Abs(path)
	cmd := exec.Command(bin, "-test.run", "^Test"+rep.Property+"$", "-test.cpu", "1", "-test.timeout", "0")
	cmd.Dir = filepath.Join(verifDir, "checks")
	cmd.Env = append(append(env(), "VERIF_PROP="+rep.Property, "VERIF_REPLAY="+abs, "GODEBUG=asyncpreemptoff=1"), envx...)
	var buf bytes.Buffer
	cmd.Stdout, cmd.Stderr = &buf, &buf
	err = cmd.Run()
	os.Stdout.Write(buf.Bytes())
	if err == nil {
		os.Exit(0)
	}
	outs := buf.String()
	if meta.CrashIsViolation && !strings.Contains(outs, "VIOLATION property=") && (strings.Contains(outs, "panic:") || strings.Contains(outs, "fatal error:")) {
		fmt.Printf("VIOLATION property=%s replay=%s\n  class=process-crash detail=%s\n", rep.Property, path, firstLine(outs, "panic:", "fatal error:"))
		os.Exit(1)
	}
	if ee, ok := err.(*exec.ExitError); ok {
		os.Exit(ee.ExitCode())
	}
	os.Exit(2)
}

func addMap(dst, src map[string]int) {
	for k, v := range src {
		dst[k] += v
	}
}

func tail(s string, n int) string {
	lines := strings.Split(strings.TrimRight(s, "\n"), "\n")
	if len(lines) > n {
		lines = lines[len(lines)-n:]
	}
	return strings.Join(lines, "\n")
}

func firstLine(s string, markers ...string) string {
	for _, l := range strings.Split(s, "\n") {
		for _, m := range markers {
			if strings.Contains(l, m) {
				return l
			}
		}
	}
	return ""
}

func oneLine(s string) string { return strings.ReplaceAll(s, "\n", " ") }

func uniq(s []string) []string {
	sort.Strings(s)
	var out []string
	for i, x := range s {
		if i == 0 || x != s[i-1] {
			out = append(out, x)
		}
	}
	return out
}
