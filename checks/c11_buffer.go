package checks

import (
	"context"
	"fmt"
	"testing"
	"testing/synctest"

	"github.com/bronlabs/errs-go/errs"

	"github.com/bronlabs/bron-crypto/pkg/network"

	"verif/harness"
	"verif/sim"
)

// RunRouterBuffer is workload C11/router-buffer: the documented bound on
// undelivered messages (10 000). Three scenarios, chosen by the run index:
//   below  - just under the bound of foreign, never-requested messages are outstanding:
//            a real exchange must still complete (the property's precondition holds);
//   drift  - far more than the bound flows through the router in total while only a
//            handful are ever outstanding: nothing may fail (the accounting must not drift);
//   dups   - more identical retransmissions than the bound of messages that are still
//            outstanding: they are absorbed, so a real exchange must still complete
//            (a retransmission must not take a buffer slot);
//   above  - clearly more than the bound is outstanding: the router must have latched
//            the documented receive-buffer-full failure (memory stays bounded).
func RunRouterBuffer(rc *harness.RunCtx) (out harness.Outcome) {
	synctest.Test(rc.T, func(t *testing.T) { out = runRouterBuffer(rc) })
	return out
}

func runRouterBuffer(rc *harness.RunCtx) harness.Outcome {
	w := rc.Seed.Sub("workload").Rand()
	scen := []string{"below", "drift", "above", "dups"}[rc.Index%4]
	ids := []sim.ID{11, 22, 33}
	net := sim.NewNet(ids)
	rt := network.NewRouter(net.Endpoint(11))
	probes := map[string]int{"buffer_" + scen: 1}
	fail := func(class, f string, a ...any) harness.Outcome {
		rt.Close()
		synctest.Wait()
		return harness.Outcome{Violation: &harness.Violation{Class: class, Site: "router-buffer", Detail: fmt.Sprintf(f, a...)}, Class: "buffer " + scen, NonTrivial: true, Probes: probes, Trace: []string{scen}}
	}
	type res struct {
		m   map[sim.ID][]byte
		err error
	}
	recv := func(cid string, from sim.ID) chan res {
		ch := make(chan res, 1)
		go func() {
			m, err := rt.ReceiveFrom(context.Background(), cid, from)
			ch <- res{m, err}
		}()
		return ch
	}
	seq := uint64(0)
	hand := func(from sim.ID, cid string, payload []byte) error {
		synctest.Wait()
		if !net.ReaderWaiting(11) {
			return fmt.Errorf("reader gone")
		}
		seq++
		m := &sim.Msg{From: from, To: 11, Link: seq, Kind: sim.KindInject, Bytes: encodeEnvelope(cid, payload)}
		net.Add(m)
		return net.Hand(m, false)
	}
	// start the reader with a first real exchange
	first := recv("first", 22)
	if err := hand(22, "first", []byte("hello")); err != nil {
		return harness.Outcome{HarnessErr: err}
	}
	synctest.Wait()
	if r := <-first; r.err != nil || string(r.m[22]) != "hello" {
		return fail("first-exchange-failed", "%v", r.err)
	}
	steps := 0
	switch scen {
	case "below":
		k := 9000 + w.IntN(990) // strictly below the documented bound
		for i := 0; i < k; i++ {
			if err := hand(ids[1+i%2], fmt.Sprintf("junk-%d", i), []byte("x")); err != nil {
				return fail("router-died-below-bound", "after %d foreign messages (bound 10000): %v", i, err)
			}
			steps++
		}
		ch := recv("real", 33)
		if err := hand(33, "real", []byte("payload")); err != nil {
			return fail("router-died-below-bound", "%v", err)
		}
		synctest.Wait()
		select {
		case r := <-ch:
			if r.err != nil || string(r.m[33]) != "payload" {
				return fail("exchange-fails-below-bound", "with %d undelivered foreign messages (bound 10000) a real exchange failed: %v", k, r.err)
			}
		default:
			return fail("exchange-blocked-below-bound", "with %d undelivered foreign messages a real exchange did not complete", k)
		}
	case "drift":
		total := 10500 + w.IntN(3000)
		outstanding := 1 + w.IntN(5)
		for i := 0; i < outstanding; i++ {
			if err := hand(22, fmt.Sprintf("junk-%d", i), []byte("x")); err != nil {
				return harness.Outcome{HarnessErr: err}
			}
		}
		for i := 0; i < total; i++ {
			cid := fmt.Sprintf("ex-%d", i)
			before := i%2 == 0 // message first or receive first
			var ch chan res
			if !before {
				ch = recv(cid, 22)
				synctest.Wait()
			}
			if err := hand(22, cid, []byte(cid)); err != nil {
				return fail("accounting-drift", "after %d completed exchanges with only %d messages outstanding the router failed: %v", i, outstanding, err)
			}
			if i%7 == 0 { // identical retransmission in between (absorbed, or buffered again if the set was already consumed)
				if !before {
					outstanding++
				}
				if err := hand(22, cid, []byte(cid)); err != nil {
					return fail("accounting-drift", "after %d completed exchanges (duplicate): %v", i, err)
				}
			}
			if before {
				ch = recv(cid, 22)
			}
			synctest.Wait()
			select {
			case r := <-ch:
				if r.err != nil {
					return fail("accounting-drift", "exchange %d failed although only %d messages are outstanding: %v", i, outstanding, r.err)
				}
			default:
				return fail("exchange-blocked", "exchange %d did not complete", i)
			}
			steps++
		}
	case "dups":
		held := 1 + w.IntN(4)
		k := 10200 + w.IntN(800)
		for i := 0; i < held; i++ {
			if err := hand(ids[1+i%2], fmt.Sprintf("held-%d", i), []byte("kept")); err != nil {
				return harness.Outcome{HarnessErr: err}
			}
		}
		for i := 0; i < k; i++ {
			j := i % held
			if err := hand(ids[1+j%2], fmt.Sprintf("held-%d", j), []byte("kept")); err != nil {
				return fail("retransmissions-consume-buffer", "after %d identical retransmissions of %d outstanding messages the router failed: %v", i, held, err)
			}
			steps++
		}
		ch := recv("real", 33)
		if err := hand(33, "real", []byte("payload")); err != nil {
			return fail("retransmissions-consume-buffer", "%v", err)
		}
		synctest.Wait()
		select {
		case r := <-ch:
			if r.err != nil || string(r.m[33]) != "payload" {
				return fail("retransmissions-consume-buffer", "after %d identical retransmissions (only %d messages outstanding, bound 10000) a real exchange failed: %v", k, held, r.err)
			}
		default:
			return fail("exchange-blocked", "after %d identical retransmissions a real exchange did not complete", k)
		}
	case "above":
		k := 10500 + w.IntN(500)
		died := -1
		for i := 0; i < k; i++ {
			if err := hand(ids[1+i%2], fmt.Sprintf("junk-%d", i), []byte("x")); err != nil {
				died = i
				break
			}
			steps++
		}
		synctest.Wait()
		_, err := rt.ReceiveFrom(context.Background(), "after", 22)
		if died < 0 && (err == nil || !errs.Is(err, network.ErrReceiveBufferFull)) {
			// the reader may still be alive only if the bound was not enforced
			return fail("bound-not-enforced", "%d undelivered messages are outstanding (documented bound 10000) and the router has not latched a receive-buffer-full failure (ReceiveFrom: %v)", k, err)
		}
		if err == nil || !errs.Is(err, network.ErrReceiveBufferFull) {
			return fail("wrong-failure", "after exceeding the bound ReceiveFrom returned %v, expected the receive-buffer-full failure", err)
		}
		probes["bound_latched_after"] = died
	}
	rt.Close()
	synctest.Wait()
	return harness.Outcome{Class: "buffer " + scen, NonTrivial: true, Probes: probes, Trace: []string{scen, fmt.Sprint(steps)}, Stats: sim.Stats{Steps: steps, Delivered: steps},
		Sample: map[string]any{"workload": "router-buffer", "scenario": scen, "messages": steps}}
}
