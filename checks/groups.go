package checks

import (
	"fmt"
	"math/big"

	"github.com/bronlabs/bron-crypto/pkg/base/algebra"
	"github.com/bronlabs/bron-crypto/pkg/base/curves/edwards25519"
	"github.com/bronlabs/bron-crypto/pkg/base/curves/k256"
	"github.com/bronlabs/bron-crypto/pkg/base/curves/p256"
	"github.com/bronlabs/bron-crypto/pkg/base/curves/pairable/bls12381"
	"github.com/bronlabs/bron-crypto/pkg/base/curves/pasta"

	"verif/ref"
)

// groupKit couples a library group with its independent reference model (nil
// where none exists: BLS12-381 G2) and a converter from library points.
type groupKit[G algebra.PrimeGroupElement[G, S], S algebra.PrimeFieldElement[S]] struct {
	name  string
	group algebra.PrimeGroup[G, S]
	refc  ref.Curve
	toRef func(G) (ref.Point, error)
}

func (k *groupKit[G, S]) sf() algebra.PrimeField[S] {
	return algebra.StructureMustBeAs[algebra.PrimeField[S]](k.group.ScalarStructure())
}

type hasBytes interface{ Bytes() []byte }

func affineToRef[F hasBytes, P interface {
	AffineX() (F, error)
	AffineY() (F, error)
	IsOpIdentity() bool
}](p P) (ref.Point, error) {
	if p.IsOpIdentity() {
		return ref.Point{Inf: true}, nil
	}
	x, err := p.AffineX()
	if err != nil {
		return ref.Point{}, err
	}
	y, err := p.AffineY()
	if err != nil {
		return ref.Point{}, err
	}
	return ref.Point{X: new(big.Int).SetBytes(x.Bytes()), Y: new(big.Int).SetBytes(y.Bytes())}, nil
}

func kitK256() *groupKit[*k256.Point, *k256.Scalar] {
	return &groupKit[*k256.Point, *k256.Scalar]{name: "k256", group: k256.NewCurve(), refc: ref.Secp256k1,
		toRef: func(p *k256.Point) (ref.Point, error) { return affineToRef[*k256.BaseFieldElement](p) }}
}

func kitP256() *groupKit[*p256.Point, *p256.Scalar] {
	return &groupKit[*p256.Point, *p256.Scalar]{name: "p256", group: p256.NewCurve(), refc: ref.P256,
		toRef: func(p *p256.Point) (ref.Point, error) { return affineToRef[*p256.BaseFieldElement](p) }}
}

func kitEd25519() *groupKit[*edwards25519.PrimeSubGroupPoint, *edwards25519.Scalar] {
	return &groupKit[*edwards25519.PrimeSubGroupPoint, *edwards25519.Scalar]{name: "ed25519", group: edwards25519.NewPrimeSubGroup(), refc: ref.Ed25519,
		toRef: func(p *edwards25519.PrimeSubGroupPoint) (ref.Point, error) {
			// the standard 32-byte encoding is decoded by the reference code itself
			return ref.Ed25519.EdDecode(p.Bytes())
		}}
}

func kitPallas() *groupKit[*pasta.PallasPoint, *pasta.FqFieldElement] {
	return &groupKit[*pasta.PallasPoint, *pasta.FqFieldElement]{name: "pallas", group: pasta.NewPallasCurve(), refc: ref.Pallas,
		toRef: func(p *pasta.PallasPoint) (ref.Point, error) { return affineToRef[*pasta.PallasBaseFieldElement](p) }}
}

func kitVesta() *groupKit[*pasta.VestaPoint, *pasta.FpFieldElement] {
	return &groupKit[*pasta.VestaPoint, *pasta.FpFieldElement]{name: "vesta", group: pasta.NewVestaCurve(), refc: ref.Vesta,
		toRef: func(p *pasta.VestaPoint) (ref.Point, error) { return affineToRef[*pasta.VestaBaseFieldElement](p) }}
}

func kitBLSG1() *groupKit[*bls12381.PointG1, *bls12381.Scalar] {
	return &groupKit[*bls12381.PointG1, *bls12381.Scalar]{name: "bls12381g1", group: bls12381.NewG1(), refc: ref.BLS12381G1,
		toRef: func(p *bls12381.PointG1) (ref.Point, error) { return affineToRef[*bls12381.BaseFieldElementG1](p) }}
}

func kitBLSG2() *groupKit[*bls12381.PointG2, *bls12381.Scalar] {
	return &groupKit[*bls12381.PointG2, *bls12381.Scalar]{name: "bls12381g2", group: bls12381.NewG2()}
}

// selfCheckKit confirms that converter and reference curve agree with the
// library on the generator and on one multiple (harness sanity, exit 2 on failure).
func selfCheckKit[G algebra.PrimeGroupElement[G, S], S algebra.PrimeFieldElement[S]](k *groupKit[G, S]) error {
	if k.refc == nil {
		return nil
	}
	g, err := k.toRef(k.group.Generator())
	if err != nil {
		return fmt.Errorf("%s: %w", k.name, err)
	}
	if !ref.Equal(g, k.refc.Gen()) {
		// The base point is a public convention, not arithmetic: for the Pasta curves
		// the library's choice is adopted after the reference code has confirmed that
		// it lies on the curve and has the full prime order.
		wc, ok := k.refc.(*ref.Weierstrass)
		if !ok || (k.name != "pallas" && k.name != "vesta") || !wc.OnCurve(g) || g.Inf {
			return fmt.Errorf("%s: library generator %v differs from reference generator", k.name, g)
		}
		c2 := *wc
		c2.Gx, c2.Gy = g.X, g.Y
		if !ref.IsIdentity(&c2, c2.Add(ref.Mul(&c2, new(big.Int).Sub(c2.Q, big.NewInt(1)), g), g)) {
			return fmt.Errorf("%s: library generator does not have the group order", k.name)
		}
		k.refc = &c2
	}
	if new(big.Int).SetBytes(k.sf().Order().Bytes()).Cmp(k.refc.Order()) != 0 {
		return fmt.Errorf("%s: group order differs from reference", k.name)
	}
	s := k.sf().FromUint64(0xDEADBEEF12345)
	p, err := k.toRef(k.group.ScalarBaseOp(s))
	if err != nil {
		return err
	}
	if !ref.Equal(p, ref.Mul(k.refc, big.NewInt(0xDEADBEEF12345), k.refc.Gen())) {
		return fmt.Errorf("%s: scalar multiple differs from reference", k.name)
	}
	return nil
}

type (
	k256Point  = k256.Point
	k256Scalar = k256.Scalar
	k256Base   = k256.BaseFieldElement
)
