package checks

import (
	"bytes"
	"context"
	"crypto/ecdsa"
	"crypto/ed25519"
	"crypto/elliptic"
	"crypto/sha256"
	"crypto/sha512"
	"fmt"
	"hash"
	"io"
	"math/big"

	"github.com/bronlabs/bron-crypto/pkg/base/algebra"
	"github.com/bronlabs/bron-crypto/pkg/base/curves"
	"github.com/bronlabs/bron-crypto/pkg/base/curves/edwards25519"
	"github.com/bronlabs/bron-crypto/pkg/base/curves/k256"
	"github.com/bronlabs/bron-crypto/pkg/base/curves/p256"
	"github.com/bronlabs/bron-crypto/pkg/base/datastructures/hashmap"
	"github.com/bronlabs/bron-crypto/pkg/base/serde"
	"github.com/bronlabs/bron-crypto/pkg/mpc"
	"github.com/bronlabs/bron-crypto/pkg/mpc/session"
	"github.com/bronlabs/bron-crypto/pkg/mpc/signatures/ecdsa/dkls23"
	dklskeygen "github.com/bronlabs/bron-crypto/pkg/mpc/signatures/ecdsa/dkls23/keygen"
	"github.com/bronlabs/bron-crypto/pkg/mpc/signatures/ecdsa/dkls23/signing_bbot"
	"github.com/bronlabs/bron-crypto/pkg/mpc/signatures/ecdsa/dkls23/signing_softspoken"
	"github.com/bronlabs/bron-crypto/pkg/mpc/signatures/schnorr/lindell22"
	l22keygen "github.com/bronlabs/bron-crypto/pkg/mpc/signatures/schnorr/lindell22/keygen"
	l22signing "github.com/bronlabs/bron-crypto/pkg/mpc/signatures/schnorr/lindell22/signing"
	"github.com/bronlabs/bron-crypto/pkg/network"
	"github.com/bronlabs/bron-crypto/pkg/network/exchange"
	"github.com/bronlabs/bron-crypto/pkg/proofs/sigma/compiler"
	sigecdsa "github.com/bronlabs/bron-crypto/pkg/signatures/ecdsa"
	"github.com/bronlabs/bron-crypto/pkg/signatures/schnorrlike"
	"github.com/bronlabs/bron-crypto/pkg/signatures/schnorrlike/bip340"
	vanilla "github.com/bronlabs/bron-crypto/pkg/signatures/schnorrlike/schnorr"

	"verif/ref"
	"verif/sim"
)

// signFlavor is one threshold signing protocol instantiated on one group.
// All library generics are instantiated with concrete types inside the
// constructor functions below, so the rest of the harness stays non-generic
// in the signature types.
type signFlavor[G algebra.PrimeGroupElement[G, S], S algebra.PrimeFieldElement[S]] struct {
	name string
	kit  *groupKit[G, S]
	// twoPartyOnly: the protocol signs with exactly two parties (Lindell17).
	twoPartyOnly bool
	// randomized: the protocol samples a nonce (false for BLS).
	randomized bool
	// independent: the oracle is a verifier written from the specification.
	independent string
	// sign is what one cosigner runs after session setup; it returns its partial output.
	sign func(ctx context.Context, rt *network.Router, sctx *session.Context, shard *mpc.BaseShard[G, S], comp compiler.Name, msg []byte, rnd io.Reader) (any, error)
	// aggregate combines the partial outputs as one aggregator would and
	// returns the signature in its public wire form plus an opaque object.
	aggregate func(anyShard *mpc.BaseShard[G, S], partials map[sim.ID]any, msg []byte, rnd io.Reader) (wire []byte, sig any, err error)
	// libVerify is the library's single-party verifier.
	libVerify func(pk G, msg []byte, sig any) error
	// refVerify is the independent verifier (reference arithmetic / stdlib).
	refVerify func(pk G, msg []byte, sig any) error
	// omni is an omniscient check given the reference-reconstructed secret key
	// (used where no independent verifier exists).
	omni func(x *big.Int, pk G, msg []byte, sig any) error
	// nonEmptyMsg: the scheme documents that it refuses empty messages.
	nonEmptyMsg bool
	// nonce extracts the public nonce part (R or r) of a signature, for C07.
	nonce func(sig any) []byte
	// encPartial / decPartial: wire form of a partial signature on its way to the aggregator.
	encPartial func(p any) ([]byte, error)
	decPartial func(b []byte) (any, error)
	// signKeep, when set, cosigns round by round (same rounds and exchange helpers
	// as the library runner) and additionally returns an aggregation function
	// bound to the cosigner's state (the cosigning-aggregator path).
	signKeep func(ctx context.Context, rt *network.Router, sctx *session.Context, shard *mpc.BaseShard[G, S], comp compiler.Name, msg []byte, rnd io.Reader) (partial any, agg func(partials map[sim.ID]any, msg []byte) ([]byte, any, error), err error)
}

// ---------- Lindell22 over a vanilla Schnorr scheme ----------

func flavorL22Vanilla[G algebra.PrimeGroupElement[G, S], S algebra.PrimeFieldElement[S]](kit *groupKit[G, S], hname string, h func() hash.Hash, negative, le bool) *signFlavor[G, S] {
	mk := func(rnd io.Reader) (*vanilla.Scheme[G, S], error) {
		return vanilla.NewScheme(kit.group, h, negative, le, nil, rnd)
	}
	f := &signFlavor[G, S]{name: fmt.Sprintf("lindell22/schnorr-%s-%s-neg=%v-le=%v", kit.name, hname, negative, le), kit: kit, randomized: true, independent: "reference Schnorr relation over reference curve arithmetic"}
	f.sign = func(ctx context.Context, rt *network.Router, sctx *session.Context, base *mpc.BaseShard[G, S], comp compiler.Name, msg []byte, rnd io.Reader) (any, error) {
		scheme, err := mk(rnd)
		if err != nil {
			return nil, err
		}
		shard, err := l22keygen.NewShard(base)
		if err != nil {
			return nil, err
		}
		r, err := l22signing.NewRunner(sctx, shard, comp, scheme.Variant(), msg, rnd)
		if err != nil {
			return nil, err
		}
		return r.Run(ctx, rt, nil)
	}
	f.aggregate = func(base *mpc.BaseShard[G, S], partials map[sim.ID]any, msg []byte, rnd io.Reader) ([]byte, any, error) {
		scheme, err := mk(rnd)
		if err != nil {
			return nil, nil, err
		}
		shard, err := l22keygen.NewShard(base)
		if err != nil {
			return nil, nil, err
		}
		agg, err := l22signing.NewAggregator(shard.PublicKeyMaterial(), scheme)
		if err != nil {
			return nil, nil, err
		}
		ps := hashmap.NewComparable[sim.ID, *lindell22.PartialSignature[G, S]]()
		for id, p := range partials {
			ps.Put(id, p.(*lindell22.PartialSignature[G, S]))
		}
		sig, err := agg.Aggregate(ps.Freeze(), msg)
		if err != nil {
			return nil, nil, err
		}
		wire, err := scheme.Variant().SerializeSignature(sig)
		return wire, sig, err
	}
	f.libVerify = func(pk G, msg []byte, sig any) error {
		scheme, err := mk(zeroReader{})
		if err != nil {
			return err
		}
		vf, err := scheme.Verifier()
		if err != nil {
			return err
		}
		lpk, err := schnorrlike.NewPublicKey(pk)
		if err != nil {
			return err
		}
		return vf.Verify(sig.(*schnorrlike.Signature[G, S]), lpk, msg)
	}
	f.refVerify = func(pk G, msg []byte, sig any) error {
		s := sig.(*schnorrlike.Signature[G, S])
		if kit.refc == nil {
			return fmt.Errorf("no reference curve for %s", kit.name)
		}
		R, err := kit.toRef(s.R)
		if err != nil {
			return err
		}
		P, err := kit.toRef(pk)
		if err != nil {
			return err
		}
		if err := ref.SchnorrVerify(kit.refc, R, P, s.R.Bytes(), pk.Bytes(), msg, toBig(s.S), h, le, negative); err != nil {
			return err
		}
		// Ed25519-compatible parameters are additionally checked with the standard library
		if kit.name == "ed25519" && hname == "sha512" && le && !negative {
			sb := s.S.Bytes()
			for i, j := 0, len(sb)-1; i < j; i, j = i+1, j-1 {
				sb[i], sb[j] = sb[j], sb[i]
			}
			if !ed25519.Verify(ed25519.PublicKey(pk.Bytes()), msg, append(append([]byte{}, s.R.Bytes()...), sb...)) {
				return fmt.Errorf("crypto/ed25519 rejects the signature")
			}
		}
		return nil
	}
	f.nonce = func(sig any) []byte { return sig.(*schnorrlike.Signature[G, S]).R.Bytes() }
	f.encPartial = func(p any) ([]byte, error) { return serde.MarshalCBOR(p.(*lindell22.PartialSignature[G, S])) }
	f.decPartial = func(b []byte) (any, error) { return serde.UnmarshalCBOR[*lindell22.PartialSignature[G, S]](b) }
	return f
}

type zeroReader struct{}

func (zeroReader) Read(p []byte) (int, error) {
	for i := range p {
		p[i] = 0
	}
	return len(p), nil
}

// ---------- Lindell22 for BIP-340 ----------

func flavorL22BIP340() *signFlavor[*k256.Point, *k256.Scalar] {
	kit := kitK256()
	f := &signFlavor[*k256.Point, *k256.Scalar]{name: "lindell22/bip340", kit: kit, randomized: true, independent: "BIP-340 verification algorithm written from the specification"}
	f.sign = func(ctx context.Context, rt *network.Router, sctx *session.Context, base *mpc.BaseShard[*k256.Point, *k256.Scalar], comp compiler.Name, msg []byte, rnd io.Reader) (any, error) {
		scheme, err := bip340.NewScheme(rnd)
		if err != nil {
			return nil, err
		}
		shard, err := l22keygen.NewShard(base)
		if err != nil {
			return nil, err
		}
		r, err := l22signing.NewRunner(sctx, shard, comp, scheme.Variant(), msg, rnd)
		if err != nil {
			return nil, err
		}
		return r.Run(ctx, rt, nil)
	}
	f.aggregate = func(base *mpc.BaseShard[*k256.Point, *k256.Scalar], partials map[sim.ID]any, msg []byte, rnd io.Reader) ([]byte, any, error) {
		scheme, err := bip340.NewScheme(rnd)
		if err != nil {
			return nil, nil, err
		}
		shard, err := l22keygen.NewShard(base)
		if err != nil {
			return nil, nil, err
		}
		agg, err := l22signing.NewAggregator(shard.PublicKeyMaterial(), scheme)
		if err != nil {
			return nil, nil, err
		}
		ps := hashmap.NewComparable[sim.ID, *lindell22.PartialSignature[*k256.Point, *k256.Scalar]]()
		for id, p := range partials {
			ps.Put(id, p.(*lindell22.PartialSignature[*k256.Point, *k256.Scalar]))
		}
		sig, err := agg.Aggregate(ps.Freeze(), msg)
		if err != nil {
			return nil, nil, err
		}
		wire, err := bip340.SerializeSignature(sig)
		return wire, sig, err
	}
	f.signKeep = func(ctx context.Context, rt *network.Router, sctx *session.Context, base *mpc.BaseShard[*k256.Point, *k256.Scalar], comp compiler.Name, msg []byte, rnd io.Reader) (any, func(map[sim.ID]any, []byte) ([]byte, any, error), error) {
		scheme, err := bip340.NewScheme(rnd)
		if err != nil {
			return nil, nil, err
		}
		shard, err := l22keygen.NewShard(base)
		if err != nil {
			return nil, nil, err
		}
		cs, err := l22signing.NewCosigner(sctx, shard, comp, scheme.Variant(), rnd)
		if err != nil {
			return nil, nil, err
		}
		// the three rounds exactly as the library runner drives them
		r1b, r1u, err := cs.Round1()
		if err != nil {
			return nil, nil, err
		}
		r2bIn, r2uIn, err := exchange.Exchange(ctx, rt, "Lindell22SigningRound1", cs.Quorum(), r1b, r1u)
		if err != nil {
			return nil, nil, err
		}
		r2b, err := cs.Round2(r2bIn, r2uIn)
		if err != nil {
			return nil, nil, err
		}
		r3bIn, err := exchange.BroadcastExchange(ctx, rt, "Lindell22SigningRound2", cs.Quorum(), r2b)
		if err != nil {
			return nil, nil, err
		}
		ps, err := cs.Round3(r3bIn, msg)
		if err != nil {
			return nil, nil, err
		}
		agg := func(partials map[sim.ID]any, m []byte) ([]byte, any, error) {
			a, err := l22signing.NewCosigningAggregator(cs, shard.PublicKeyMaterial(), scheme)
			if err != nil {
				return nil, nil, err
			}
			pm := hashmap.NewComparable[sim.ID, *lindell22.PartialSignature[*k256.Point, *k256.Scalar]]()
			for id, p := range partials {
				pm.Put(id, p.(*lindell22.PartialSignature[*k256.Point, *k256.Scalar]))
			}
			sig, err := a.Aggregate(pm.Freeze(), m)
			if err != nil {
				return nil, nil, err
			}
			wire, err := bip340.SerializeSignature(sig)
			return wire, sig, err
		}
		return ps, agg, nil
	}
	f.libVerify = func(pk *k256.Point, msg []byte, sig any) error {
		scheme, err := bip340.NewScheme(zeroReader{})
		if err != nil {
			return err
		}
		vf, err := scheme.Verifier()
		if err != nil {
			return err
		}
		lpk, err := bip340.NewPublicKey(pk)
		if err != nil {
			return err
		}
		return vf.Verify(sig.(*bip340.Signature), lpk, msg)
	}
	f.refVerify = func(pk *k256.Point, msg []byte, sig any) error {
		wire, err := bip340.SerializeSignature(sig.(*bip340.Signature))
		if err != nil {
			return err
		}
		return ref.BIP340Verify(pk.ToCompressed()[1:], msg, wire)
	}
	f.nonce = func(sig any) []byte { return sig.(*bip340.Signature).R.ToCompressed()[1:] }
	f.encPartial = func(p any) ([]byte, error) {
		return serde.MarshalCBOR(p.(*lindell22.PartialSignature[*k256.Point, *k256.Scalar]))
	}
	f.decPartial = func(b []byte) (any, error) {
		return serde.UnmarshalCBOR[*lindell22.PartialSignature[*k256.Point, *k256.Scalar]](b)
	}
	return f
}

// ---------- DKLs23 (both multipliers) ----------

type ecdsaCurveKit[P curves.Point[P, B, S], B algebra.PrimeFieldElement[B], S algebra.PrimeFieldElement[S]] struct {
	curve sigecdsa.Curve[P, B, S]
	refc  *ref.Weierstrass
	std   elliptic.Curve // nil for secp256k1
}

func refECDSAVerify[P curves.Point[P, B, S], B algebra.PrimeFieldElement[B], S algebra.PrimeFieldElement[S]](kit *groupKit[P, S], ek ecdsaCurveKit[P, B, S], h func() hash.Hash, pk P, msg []byte, sig *sigecdsa.Signature[S]) error {
	Q, err := kit.toRef(pk)
	if err != nil {
		return err
	}
	hh := h()
	hh.Write(msg)
	digest := hh.Sum(nil)
	r, s := toBig(sig.R()), toBig(sig.S())
	if err := ref.ECDSAVerify(ek.refc, Q, digest, r, s); err != nil {
		return err
	}
	if ek.std != nil {
		if !ecdsa.Verify(&ecdsa.PublicKey{Curve: ek.std, X: Q.X, Y: Q.Y}, digest, r, s) {
			return fmt.Errorf("crypto/ecdsa rejects the signature")
		}
	}
	return nil
}

func flavorDKLs23[P curves.Point[P, B, S], B algebra.PrimeFieldElement[B], S algebra.PrimeFieldElement[S]](kit *groupKit[P, S], ek ecdsaCurveKit[P, B, S], mult, hname string, h func() hash.Hash) *signFlavor[P, S] {
	f := &signFlavor[P, S]{name: fmt.Sprintf("dkls23-%s/%s-%s", mult, kit.name, hname), kit: kit, randomized: true, independent: "textbook ECDSA verification over reference curve arithmetic (+ crypto/ecdsa on P-256)"}
	suite := func() (*sigecdsa.Suite[P, B, S], error) { return sigecdsa.NewSuite(ek.curve, h) }
	f.sign = func(ctx context.Context, rt *network.Router, sctx *session.Context, base *mpc.BaseShard[P, S], _ compiler.Name, msg []byte, rnd io.Reader) (any, error) {
		su, err := suite()
		if err != nil {
			return nil, err
		}
		shard, err := dklskeygen.NewShard[P, B, S](base)
		if err != nil {
			return nil, err
		}
		var r network.Runner[*dkls23.PartialSignature[P, B, S]]
		if mult == "bbot" {
			r, err = signing_bbot.NewRunner(sctx, su, shard, msg, rnd)
		} else {
			r, err = signing_softspoken.NewRunner(sctx, su, shard, msg, rnd)
		}
		if err != nil {
			return nil, err
		}
		return r.Run(ctx, rt, nil)
	}
	f.aggregate = func(base *mpc.BaseShard[P, S], partials map[sim.ID]any, msg []byte, _ io.Reader) ([]byte, any, error) {
		su, err := suite()
		if err != nil {
			return nil, nil, err
		}
		shard, err := dklskeygen.NewShard[P, B, S](base)
		if err != nil {
			return nil, nil, err
		}
		var ps []*dkls23.PartialSignature[P, B, S]
		for _, id := range sortedAnyKeys(partials) {
			ps = append(ps, partials[id].(*dkls23.PartialSignature[P, B, S]))
		}
		sig, err := dkls23.Aggregate(su, shard.PublicKey(), msg, ps...)
		if err != nil {
			return nil, nil, err
		}
		return append(sig.R().Bytes(), sig.S().Bytes()...), sig, nil
	}
	f.libVerify = func(pk P, msg []byte, sig any) error {
		su, err := suite()
		if err != nil {
			return err
		}
		vf, err := sigecdsa.NewVerifier(su)
		if err != nil {
			return err
		}
		lpk, err := sigecdsa.NewPublicKey(pk)
		if err != nil {
			return err
		}
		return vf.Verify(sig.(*sigecdsa.Signature[S]), lpk, msg)
	}
	f.refVerify = func(pk P, msg []byte, sig any) error {
		return refECDSAVerify(kit, ek, h, pk, msg, sig.(*sigecdsa.Signature[S]))
	}
	f.nonce = func(sig any) []byte { return sig.(*sigecdsa.Signature[S]).R().Bytes() }
	f.encPartial = func(p any) ([]byte, error) { return serde.MarshalCBOR(p.(*dkls23.PartialSignature[P, B, S])) }
	f.decPartial = func(b []byte) (any, error) { return serde.UnmarshalCBOR[*dkls23.PartialSignature[P, B, S]](b) }
	return f
}

func sortedAnyKeys(m map[sim.ID]any) []sim.ID {
	var ids []sim.ID
	for id := range m {
		ids = append(ids, id)
	}
	return sortedIDs(ids)
}

func ecdsaK256() ecdsaCurveKit[*k256.Point, *k256.BaseFieldElement, *k256.Scalar] {
	return ecdsaCurveKit[*k256.Point, *k256.BaseFieldElement, *k256.Scalar]{curve: k256.NewCurve(), refc: ref.Secp256k1}
}

func ecdsaP256() ecdsaCurveKit[*p256.Point, *p256.BaseFieldElement, *p256.Scalar] {
	return ecdsaCurveKit[*p256.Point, *p256.BaseFieldElement, *p256.Scalar]{curve: p256.NewCurve(), refc: ref.P256, std: elliptic.P256()}
}

var _ = bytes.Equal
var _ = big.NewInt
var _ = sha256.New
var _ = sha512.New
var _ = edwards25519.NewPrimeSubGroup
