// Package cbor is a small self-contained CBOR tree codec (definite lengths,
// major types 0-7, tags) used by the wire adversary: every leaf of an encoded
// message is addressable by path, and an untouched tree re-encodes to exactly
// the bytes it was parsed from.
package cbor

import (
	"encoding/binary"
	"errors"
	"fmt"
	"strings"
)

// Node is one CBOR data item.
type Node struct {
	Major byte   // 0 uint, 1 nint, 2 bytes, 3 text, 4 array, 5 map, 6 tag, 7 simple/float
	Arg   uint64 // value (0,1), length (2,3 informational), count (4,5), tag number (6), simple/float bits (7)
	AI    byte   // additional-information as parsed (preserved on re-encoding when still sufficient)
	Bytes []byte // payload of major 2/3
	Kids  []*Node
	// Nested is set by ParseDeep for a byte string whose content is itself one
	// CBOR array/map/tag (messages embed encoded sub-messages this way). When
	// set, Encode serialises Nested instead of Bytes.
	Nested *Node
}

// ParseDeep parses b and, recursively, every byte string that contains
// exactly one CBOR container.
func ParseDeep(b []byte) (*Node, error) {
	n, err := Parse(b)
	if err != nil {
		return nil, err
	}
	n.deepen(0)
	return n, nil
}

func (n *Node) deepen(depth int) {
	if depth > 8 {
		return
	}
	if n.Major == 2 && len(n.Bytes) >= 2 {
		if sub, err := Parse(n.Bytes); err == nil && sub.Major >= 4 && sub.Major <= 6 {
			n.Nested = sub
			sub.deepen(depth + 1)
		}
		return
	}
	for _, k := range n.Kids {
		k.deepen(depth)
	}
}

var errTrunc = errors.New("cbor: truncated")

// Parse decodes exactly one item that must span all of b.
func Parse(b []byte) (*Node, error) {
	n, rest, err := parse(b, 0)
	if err != nil {
		return nil, err
	}
	if len(rest) != 0 {
		return nil, fmt.Errorf("cbor: %d trailing bytes", len(rest))
	}
	return n, nil
}

func parse(b []byte, depth int) (*Node, []byte, error) {
	if depth > 64 {
		return nil, nil, errors.New("cbor: too deep")
	}
	if len(b) == 0 {
		return nil, nil, errTrunc
	}
	n := &Node{Major: b[0] >> 5, AI: b[0] & 31}
	b = b[1:]
	switch {
	case n.AI < 24:
		n.Arg = uint64(n.AI)
	case n.AI == 24:
		if len(b) < 1 {
			return nil, nil, errTrunc
		}
		n.Arg, b = uint64(b[0]), b[1:]
	case n.AI == 25:
		if len(b) < 2 {
			return nil, nil, errTrunc
		}
		n.Arg, b = uint64(binary.BigEndian.Uint16(b)), b[2:]
	case n.AI == 26:
		if len(b) < 4 {
			return nil, nil, errTrunc
		}
		n.Arg, b = uint64(binary.BigEndian.Uint32(b)), b[4:]
	case n.AI == 27:
		if len(b) < 8 {
			return nil, nil, errTrunc
		}
		n.Arg, b = binary.BigEndian.Uint64(b), b[8:]
	default:
		return nil, nil, errors.New("cbor: indefinite length or reserved additional information")
	}
	switch n.Major {
	case 2, 3:
		if uint64(len(b)) < n.Arg {
			return nil, nil, errTrunc
		}
		n.Bytes = append([]byte(nil), b[:n.Arg]...)
		b = b[n.Arg:]
	case 4, 5:
		cnt := n.Arg
		if n.Major == 5 {
			cnt *= 2
		}
		if cnt > uint64(len(b)) {
			return nil, nil, errTrunc
		}
		for i := uint64(0); i < cnt; i++ {
			k, rest, err := parse(b, depth+1)
			if err != nil {
				return nil, nil, err
			}
			n.Kids = append(n.Kids, k)
			b = rest
		}
	case 6:
		k, rest, err := parse(b, depth+1)
		if err != nil {
			return nil, nil, err
		}
		n.Kids = []*Node{k}
		b = rest
	}
	return n, b, nil
}

func head(major byte, arg uint64, ai byte) []byte {
	need := byte(27)
	switch {
	case arg < 24:
		need = byte(arg)
	case arg <= 0xff:
		need = 24
	case arg <= 0xffff:
		need = 25
	case arg <= 0xffffffff:
		need = 26
	}
	if major == 7 {
		need = ai // simple values and floats keep their width
	} else if ai >= 24 && ai <= 27 && (need < 24 || ai > need) {
		need = ai // preserve a (non-minimal) width that was parsed
	}
	out := []byte{major<<5 | need}
	switch need {
	case 24:
		out = append(out, byte(arg))
	case 25:
		out = binary.BigEndian.AppendUint16(out, uint16(arg))
	case 26:
		out = binary.BigEndian.AppendUint32(out, uint32(arg))
	case 27:
		out = binary.BigEndian.AppendUint64(out, arg)
	}
	return out
}

// Encode serialises the tree.
func (n *Node) Encode() []byte {
	switch n.Major {
	case 2, 3:
		if n.Nested != nil {
			inner := n.Nested.Encode()
			return append(head(n.Major, uint64(len(inner)), aiFor(n, uint64(len(inner)))), inner...)
		}
		return append(head(n.Major, uint64(len(n.Bytes)), aiFor(n, uint64(len(n.Bytes)))), n.Bytes...)
	case 4:
		out := head(4, uint64(len(n.Kids)), aiFor(n, uint64(len(n.Kids))))
		for _, k := range n.Kids {
			out = append(out, k.Encode()...)
		}
		return out
	case 5:
		out := head(5, uint64(len(n.Kids)/2), aiFor(n, uint64(len(n.Kids)/2)))
		for _, k := range n.Kids {
			out = append(out, k.Encode()...)
		}
		return out
	case 6:
		return append(head(6, n.Arg, n.AI), n.Kids[0].Encode()...)
	default:
		return head(n.Major, n.Arg, n.AI)
	}
}

// aiFor keeps the parsed width only while the count is unchanged.
func aiFor(n *Node, cur uint64) byte {
	if cur == n.Arg {
		return n.AI
	}
	return 0
}

// Clone deep-copies a tree.
func (n *Node) Clone() *Node {
	c := *n
	c.Bytes = append([]byte(nil), n.Bytes...)
	c.Kids = nil
	if n.Nested != nil {
		c.Nested = n.Nested.Clone()
	}
	for _, k := range n.Kids {
		c.Kids = append(c.Kids, k.Clone())
	}
	return &c
}

// Leaf describes an addressable leaf.
type Leaf struct {
	Path string
	Node *Node
	// Parent and Index locate the node for replacement.
	Parent *Node
	Index  int
}

// IsLeaf: strings, integers and simple values.
func (n *Node) IsLeaf() bool { return (n.Major <= 3 || n.Major == 7) && n.Nested == nil }

// Kind is a short type name of a leaf ("bytes32", "text", "uint", ...).
func (n *Node) Kind() string {
	switch n.Major {
	case 0:
		return "uint"
	case 1:
		return "nint"
	case 2:
		return fmt.Sprintf("bytes%d", len(n.Bytes))
	case 3:
		return "text"
	case 7:
		return "simple"
	case 4:
		return "array"
	case 5:
		return "map"
	default:
		return "tag"
	}
}

// Walk visits every node; containers are visited too (leaf=false for them).
// Paths: map entries by text key ".key" (or "[k<i>]" for non-text keys), array
// elements "[i]", tag content "<tag>".
func (n *Node) Walk(visit func(l Leaf)) { n.walk("", nil, 0, visit) }

func (n *Node) walk(path string, parent *Node, idx int, visit func(l Leaf)) {
	visit(Leaf{Path: path, Node: n, Parent: parent, Index: idx})
	if n.Nested != nil {
		n.Nested.walk(path+">", n, -1, visit)
		return
	}
	switch n.Major {
	case 4:
		for i, k := range n.Kids {
			k.walk(fmt.Sprintf("%s[%d]", path, i), n, i, visit)
		}
	case 5:
		for i := 0; i+1 < len(n.Kids); i += 2 {
			key := n.Kids[i]
			var p string
			if key.Major == 3 {
				p = path + "." + string(key.Bytes)
			} else if key.Major == 0 {
				p = fmt.Sprintf("%s{%d}", path, key.Arg)
			} else {
				p = fmt.Sprintf("%s{k%d}", path, i/2)
			}
			n.Kids[i+1].walk(p, n, i+1, visit)
		}
	case 6:
		n.Kids[0].walk(fmt.Sprintf("%s<%d>", path, n.Arg), n, 0, visit)
	}
}

// Leaves lists all leaves with their paths.
func (n *Node) Leaves() []Leaf {
	var out []Leaf
	n.Walk(func(l Leaf) {
		if l.Node.IsLeaf() {
			out = append(out, l)
		}
	})
	return out
}

// Find returns the node at path.
func (n *Node) Find(path string) (Leaf, bool) {
	var out Leaf
	found := false
	n.Walk(func(l Leaf) {
		if !found && l.Path == path {
			out, found = l, true
		}
	})
	return out, found
}

// NormPath replaces array indices and integer map keys by wildcards, so that
// "the same position" can be compared across messages of different senders.
func NormPath(p string) string {
	var sb strings.Builder
	for i := 0; i < len(p); i++ {
		if p[i] == '[' || p[i] == '{' {
			close := byte(']')
			if p[i] == '{' {
				close = '}'
			}
			j := strings.IndexByte(p[i:], close)
			sb.WriteByte(p[i])
			sb.WriteByte('*')
			sb.WriteByte(close)
			i += j
			continue
		}
		sb.WriteByte(p[i])
	}
	return sb.String()
}
