#!/usr/bin/env python3
# Regenerates /verif/MANIFEST.json from the table below (kept in one place so that the file is always valid).
import json
NA = {
 "C02": "Qualification, dealing, reconstruction and privacy of a sharing are pure functions of (policy, subset, secret, dealer coins); there is no schedule, peer, clock or fault for a simulator to own.",
 "C05": "Verify(share, verification vector) is a pure predicate; an altered share is an input variation, not a fault in a running system.",
 "C08": "Non-interactive prove/verify/extract/simulate are pure functions of statement, witness, context and coins; no interleaving or fault is involved.",
 "C12": "Encode/decode are pure functions on in-memory byte slices (no streams, no partial reads); searching the byte-string space is input generation, not simulation.",
 "C13": "Element (de)serialisation is a pure function of the bytes.",
 "C14": "Group, field and pairing arithmetic are pure functions of their operands.",
 "C15": "Single-party sign/verify is a pure function of key, message and coins.",
 "C16": "Encryption, decryption and homomorphic operations are pure functions of key, plaintext, nonce.",
 "C17": "Big-number arithmetic is a pure function of its operands (the known Jacobi defect is an input-dependent wrong value, out of this technique's reach).",
 "C18": "Commit/open are pure functions of key, message, witness.",
 "C19": "A transcript is a single-owner sequential object and hash-to-curve a pure function; the histories are call sequences of one caller with no concurrency, time or fault in them.",
 "C20": "Interpolation and linear solving are pure functions of their inputs.",
}
PENDING = {}  # id -> reason, for claimed properties whose check is not built yet
CHECKS = {}
exec(open('/verif/manifest_table.py').read())
checks=[]
for pid in sorted(CHECKS):
    c=CHECKS[pid]
    checks.append({
      "property_id": pid,
      "quick_cmd": f"./check {pid} quick",
      "thorough_cmd": f"./check {pid} thorough",
      "evidence_file": f"/verif/evidence/{pid}.json",
      "replay_cmd_template": "./check replay {path}",
      "engine": c["engine"],
      "level_claimed": {"category": c["level"], "text": c["text"], "design_ref": c["design_ref"]},
      "level_note": c["note"],
      "technique": c["technique"],
    })
na=[{"property_id":k,"reason":v} for k,v in sorted({**NA,**PENDING}.items()) if k not in CHECKS]
m={
 "version":1,
 "setup_cmd":"./check build",
 "hooks":{"guard":"verif","enable":"go1.26.8 test -tags purego,verif [-overlay .build/overlay/overlay.json] ./checks (harness module /verif with replace github.com/bronlabs/bron-crypto => /repo; the fine-step variant of C11 compiles AST-instrumented copies of /repo/pkg/network/*.go through -overlay; nothing is committed to /repo)",
   "baseline_off_cmd":"for m in $(cat /w/out/gomods.txt); do MF=$(cd /repo/$m && . /w/out/goenv.sh && gomodflag); (cd /repo/$m && go test $MF -json -vet=off -count=1 -timeout 25m ./...); done",
   "source_commits":[],"add_only":True},
 "engines":ENGINES,
 "checks":checks,
 "not_applicable":na,
 "notes":NOTES,
}
json.dump(m,open('/verif/MANIFEST.json','w'),indent=1)
print("checks:",[c["property_id"] for c in checks],"na:",[x["property_id"] for x in na])
