package checks

import (
	"fmt"
	"math/big"
	"math/rand/v2"
	"sort"
	"strings"

	"github.com/bronlabs/bron-crypto/pkg/base/algebra"
	"github.com/bronlabs/bron-crypto/pkg/mpc/sharing/accessstructures"
	"github.com/bronlabs/bron-crypto/pkg/mpc/sharing/accessstructures/boolexpr"
	"github.com/bronlabs/bron-crypto/pkg/mpc/sharing/accessstructures/cnf"
	"github.com/bronlabs/bron-crypto/pkg/mpc/sharing/accessstructures/hierarchical"
	"github.com/bronlabs/bron-crypto/pkg/mpc/sharing/accessstructures/threshold"
	"github.com/bronlabs/bron-crypto/pkg/mpc/sharing/accessstructures/unanimity"
	"github.com/bronlabs/bron-crypto/pkg/mpc/sharing/scheme/kw"
	"github.com/bronlabs/bron-crypto/pkg/mpc/sharing/scheme/kw/msp"
	"github.com/bronlabs/bron-crypto/pkg/network"

	"verif/ref"
	"verif/sim"
)

// acSpec is an access structure generated twice from one description: as the
// library object and as an independent reference predicate.
type acSpec struct {
	kind      string
	desc      string
	ids       []sim.ID // holders, ascending
	lib       accessstructures.Monotone
	qualified func(set map[sim.ID]bool) bool
	nonIdeal  bool
	// expectRefusal is set when the generator deliberately produced a layout the
	// library documents as unsupported (hierarchical levels whose ids are not
	// increasing with the level). Refusal is then a trivial pass; if the library
	// accepts the layout the run continues and the reference oracle judges the result.
	expectRefusal string
	// own, when set, builds a party's own object for the same policy (every party of a
	// real deployment constructs its access structure itself; for CNF the maximal
	// unqualified sets are then listed in a party-specific order).
	own func(id sim.ID) (accessstructures.Monotone, error)
}

// libOf returns the access-structure object party id uses.
func (a *acSpec) libOf(id sim.ID) accessstructures.Monotone {
	if a.own != nil {
		if l, err := a.own(id); err == nil {
			return l
		}
	}
	return a.lib
}

func idSet(ids []sim.ID) map[sim.ID]bool {
	m := map[sim.ID]bool{}
	for _, id := range ids {
		m[id] = true
	}
	return m
}

// gate is the reference boolean/threshold tree.
type gate struct {
	leaf sim.ID
	k    int
	kids []*gate
}

func (g *gate) eval(s map[sim.ID]bool) bool {
	if g.kids == nil {
		return s[g.leaf]
	}
	n := 0
	for _, c := range g.kids {
		if c.eval(s) {
			n++
		}
	}
	return n >= g.k
}

func (g *gate) String() string {
	if g.kids == nil {
		return fmt.Sprint(g.leaf)
	}
	var p []string
	for _, c := range g.kids {
		p = append(p, c.String())
	}
	return fmt.Sprintf("T%d(%s)", g.k, strings.Join(p, ","))
}

func (g *gate) toLib() *boolexpr.Node {
	if g.kids == nil {
		return boolexpr.ID(g.leaf)
	}
	var ks []*boolexpr.Node
	for _, c := range g.kids {
		ks = append(ks, c.toLib())
	}
	return boolexpr.Threshold(g.k, ks...)
}

func (g *gate) leaves(m map[sim.ID]int) {
	if g.kids == nil {
		m[g.leaf]++
		return
	}
	for _, c := range g.kids {
		c.leaves(m)
	}
}

// subsetsOf enumerates all subsets of ids as masks.
func maskSet(ids []sim.ID, mask uint32) []sim.ID {
	var out []sim.ID
	for i, id := range ids {
		if mask&(1<<i) != 0 {
			out = append(out, id)
		}
	}
	return out
}

// hasQualifiedSingleton / isDegenerate decide by the reference predicate.
func (a *acSpec) hasQualifiedSingleton() bool {
	for _, id := range a.ids {
		if a.qualified(map[sim.ID]bool{id: true}) {
			return true
		}
	}
	return false
}

func (a *acSpec) qualifiedSets() (minimal, all [][]sim.ID) {
	n := len(a.ids)
	var qmasks []uint32
	for mask := uint32(1); mask < 1<<n; mask++ {
		if a.qualified(idSet(maskSet(a.ids, mask))) {
			qmasks = append(qmasks, mask)
		}
	}
	for _, m := range qmasks {
		isMin := true
		for _, o := range qmasks {
			if o != m && o&m == o {
				isMin = false
				break
			}
		}
		s := maskSet(a.ids, m)
		all = append(all, s)
		if isMin {
			minimal = append(minimal, s)
		}
	}
	return minimal, all
}

// genAccess draws an access structure over n fresh holder ids. forceKind
// selects a family ("" = random).
func genAccess(w *rand.Rand, n int, forceKind string, fixedIDs ...[]sim.ID) (*acSpec, error) {
	kinds := []string{"threshold", "unanimity", "cnf", "hierarchical", "boolexpr"}
	kind := forceKind
	forceInterleave := false
	if kind == "hierarchical+interleaved" {
		kind, forceInterleave = "hierarchical", true
	}
	if kind == "" {
		kind = kinds[w.IntN(len(kinds))]
	}
	for attempt := 0; attempt < 50; attempt++ {
		ids := sortedIDs(pickIDs(w, n))
		if len(fixedIDs) > 0 && fixedIDs[0] != nil {
			ids = sortedIDs(fixedIDs[0])
			n = len(ids)
		} else if forceInterleave && w.IntN(3) != 0 {
			// small consecutive ids: where interleaving makes the Birkhoff matrix singular
			ids = nil
			for k := 1; k <= n; k++ {
				ids = append(ids, sim.ID(k))
			}
		}
		a := &acSpec{kind: kind, ids: ids}
		var err error
		switch kind {
		case "threshold":
			t := 2 + w.IntN(n-1)
			a.lib, err = threshold.NewThresholdAccessStructure(uint(t), quorumOf(ids))
			a.qualified = func(s map[sim.ID]bool) bool {
				c := 0
				for _, id := range ids {
					if s[id] {
						c++
					}
				}
				return c >= t
			}
			a.desc = fmt.Sprintf("threshold(%d of %v)", t, ids)
		case "unanimity":
			a.lib, err = unanimity.NewUnanimityAccessStructure(quorumOf(ids))
			a.qualified = func(s map[sim.ID]bool) bool {
				for _, id := range ids {
					if !s[id] {
						return false
					}
				}
				return true
			}
			a.desc = fmt.Sprintf("unanimity(%v)", ids)
		case "cnf":
			if n < 3 {
				kind = "threshold"
				continue
			}
			k := 1 + w.IntN(3)
			var us [][]sim.ID
			for len(us) < k {
				var u []sim.ID
				for _, id := range ids {
					if w.IntN(2) == 0 {
						u = append(u, id)
					}
				}
				if len(u) == 0 || len(u) == n {
					continue
				}
				us = append(us, u)
			}
			cover := map[sim.ID]bool{}
			for _, u := range us {
				for _, id := range u {
					cover[id] = true
				}
			}
			if len(cover) != n {
				continue
			}
			// every holder must lie outside some unqualified set (otherwise it is in no
			// clause and owns no share at all: exercised separately, see dkg-cnf-dummy)
			dummy := false
			var maxUs [][]sim.ID
			for i, u := range us {
				isMax := true
				for j, v := range us {
					if i == j {
						continue
					}
					sub := true
					for _, id := range u {
						if !idSet(v)[id] {
							sub = false
						}
					}
					if sub && (len(u) < len(v) || i > j) {
						isMax = false
					}
				}
				if isMax {
					maxUs = append(maxUs, u)
				}
			}
			for _, id := range ids {
				inAll := true
				for _, u := range maxUs {
					if !idSet(u)[id] {
						inAll = false
					}
				}
				if inAll {
					dummy = true
				}
			}
			if dummy {
				continue
			}
			sets := make([]map[sim.ID]bool, len(us))
			for i, u := range us {
				sets[i] = idSet(u)
			}
			a.lib, err = newCNF(us)
			usCopy := append([][]sim.ID(nil), us...)
			a.own = func(id sim.ID) (accessstructures.Monotone, error) {
				k := int(uint64(id) % uint64(len(usCopy)))
				rot := append(append([][]sim.ID(nil), usCopy[k:]...), usCopy[:k]...)
				if (uint64(id)/uint64(len(usCopy)))%2 == 1 {
					for i, j := 0, len(rot)-1; i < j; i, j = i+1, j-1 {
						rot[i], rot[j] = rot[j], rot[i]
					}
				}
				return newCNF(rot)
			}
			a.qualified = func(s map[sim.ID]bool) bool {
				any := false
				for id := range s {
					if s[id] {
						any = true
					}
				}
				if !any {
					return false
				}
				for _, u := range sets {
					sub := true
					for id, in := range s {
						if in && !u[id] {
							sub = false
							break
						}
					}
					if sub {
						return false
					}
				}
				return true
			}
			a.desc = fmt.Sprintf("cnf(max-unqualified %v)", us)
			a.nonIdeal = true
		case "hierarchical":
			if n < 3 {
				kind = "threshold"
				continue
			}
			// levels partition the ascending ids (ids must increase with the level)
			nl := 2
			if n >= 5 && w.IntN(2) == 0 {
				nl = 3
			}
			cuts := map[int]bool{}
			for len(cuts) < nl-1 {
				cuts[1+w.IntN(n-1)] = true
			}
			var levels [][]sim.ID
			var cur []sim.ID
			hid := append([]sim.ID(nil), ids...)
			if forceInterleave || w.IntN(4) == 0 {
				// interleaved assignment: a lower level holds an id smaller than one of a higher level
				if w.IntN(2) == 0 {
					w.Shuffle(len(hid), func(i, j int) { hid[i], hid[j] = hid[j], hid[i] })
				} else {
					// minimal interleaving: swap two ids across one level boundary, keeping each
					// level's largest id in place (level maxima still increase)
					var bounds []int
					for b := range cuts {
						if b >= 2 {
							bounds = append(bounds, b)
						}
					}
					sort.Ints(bounds)
					var allCuts []int
					for b := range cuts {
						allCuts = append(allCuts, b)
					}
					sort.Ints(allCuts)
					type span struct{ lo, b int }
					var ok []span
					for _, b := range bounds {
						lo := 0
						for _, o := range allCuts {
							if o < b {
								lo = o
							}
						}
						if b-lo >= 2 { // the level before the boundary has a non-maximal member to swap
							ok = append(ok, span{lo, b})
						}
					}
					if len(ok) > 0 {
						sp := ok[w.IntN(len(ok))]
						// hid[lo:b] is the level before the boundary; its maximum is hid[b-1]
						i := sp.lo + w.IntN(sp.b-1-sp.lo)
						hid[i], hid[sp.b] = hid[sp.b], hid[i]
					} else {
						w.Shuffle(len(hid), func(i, j int) { hid[i], hid[j] = hid[j], hid[i] })
					}
				}
			}
			for i, id := range hid {
				if cuts[i] {
					levels = append(levels, cur)
					cur = nil
				}
				cur = append(cur, id)
			}
			levels = append(levels, cur)
			maxSoFar := sim.ID(0)
			for _, l := range levels {
				lmax := sim.ID(0)
				for _, id := range l {
					if id <= maxSoFar {
						a.expectRefusal = "hierarchical levels with ids not increasing by level"
					}
					if id > lmax {
						lmax = id
					}
				}
				if lmax > maxSoFar {
					maxSoFar = lmax
				}
			}
			var thr []int
			cum, prev := 0, 0
			ok := true
			for _, l := range levels {
				cum += len(l)
				lo := prev + 1
				if lo > cum {
					ok = false
					break
				}
				t := lo + w.IntN(cum-lo+1)
				thr = append(thr, t)
				prev = t
			}
			if !ok {
				continue
			}
			var lv []*hierarchical.ThresholdLevel
			for i, l := range levels {
				lv = append(lv, hierarchical.WithLevel(thr[i], l...))
			}
			a.lib, err = hierarchical.NewHierarchicalConjunctiveThresholdAccessStructure(lv...)
			a.qualified = func(s map[sim.ID]bool) bool {
				c := 0
				for i, l := range levels {
					for _, id := range l {
						if s[id] {
							c++
						}
					}
					if c < thr[i] {
						return false
					}
				}
				return true
			}
			a.desc = fmt.Sprintf("hierarchical(levels %v thresholds %v)", levels, thr)
		case "boolexpr":
			if n < 3 {
				kind = "threshold"
				continue
			}
			g := genGate(w, ids, 0)
			lv := map[sim.ID]int{}
			g.leaves(lv)
			if len(lv) != n {
				continue
			}
			for _, c := range lv {
				if c > 1 {
					a.nonIdeal = true
				}
			}
			a.lib, err = boolexpr.NewThresholdGateAccessStructure(g.toLib())
			a.qualified = g.eval
			a.desc = "boolexpr " + g.String()
		}
		if err != nil {
			return nil, fmt.Errorf("%s: library refused a well-formed policy: %w", a.desc, err)
		}
		if a.hasQualifiedSingleton() {
			continue // documented as unsupported by the protocols (every party must need a peer)
		}
		if !a.qualified(idSet(ids)) {
			continue
		}
		return a, nil
	}
	return genAccess(w, n, "threshold", fixedIDs...)
}

func genGate(w *rand.Rand, ids []sim.ID, depth int) *gate {
	nk := 2 + w.IntN(3)
	g := &gate{}
	used := map[sim.ID]bool{} // the library documents: no duplicate attribute leaves under one gate
	for i := 0; i < nk; i++ {
		if depth < 2 && w.IntN(3) == 0 {
			g.kids = append(g.kids, genGate(w, ids, depth+1))
			continue
		}
		id := ids[w.IntN(len(ids))]
		if used[id] {
			continue
		}
		used[id] = true
		g.kids = append(g.kids, &gate{leaf: id})
	}
	if len(g.kids) < 2 {
		return genGate(w, ids, depth)
	}
	nk = len(g.kids)
	g.k = 1 + w.IntN(nk)
	return g
}

func newCNF(us [][]sim.ID) (accessstructures.Monotone, error) {
	sets := make([]network.Quorum, 0, len(us))
	for _, u := range us {
		sets = append(sets, quorumOf(u))
	}
	return cnf.NewCNFAccessStructure(sets...)
}

// ---- MSP as data, and reference checks on shares ----

func toBig(b interface{ Bytes() []byte }) *big.Int {
	return new(big.Int).SetBytes(b.Bytes())
}

type mspData struct {
	rows    [][]*big.Int
	holder  []sim.ID // row -> holder
	p       *big.Int
	d       int
}

func extractMSP[S algebra.PrimeFieldElement[S]](m *msp.MSP[S]) (*mspData, error) {
	rows, cols := m.Matrix().Dimensions()
	md := &mspData{d: cols, p: new(big.Int).SetBytes(m.BaseField().Order().Bytes())}
	for r := 0; r < rows; r++ {
		var row []*big.Int
		for c := 0; c < cols; c++ {
			e, err := m.Matrix().Get(r, c)
			if err != nil {
				return nil, err
			}
			row = append(row, toBig(e))
		}
		h, ok := m.RowsToHolders().Get(r)
		if !ok {
			return nil, fmt.Errorf("row %d has no holder", r)
		}
		md.rows = append(md.rows, row)
		md.holder = append(md.holder, h)
	}
	return md, nil
}

// rowsOf returns the row indices of a holder in ascending order (the order in
// which the library lays out the components of that holder's share).
func (md *mspData) rowsOf(id sim.ID) []int {
	var out []int
	for r, h := range md.holder {
		if h == id {
			out = append(out, r)
		}
	}
	sort.Ints(out)
	return out
}

// spanCoefficients: lambda over the rows of the given holders with
// lambda * M_S = e0, by the reference solver.
func (md *mspData) spanCoefficients(set []sim.ID) (rowsIdx []int, lambda []*big.Int, ok bool) {
	var sub [][]*big.Int
	for _, id := range set {
		for _, r := range md.rowsOf(id) {
			rowsIdx = append(rowsIdx, r)
			sub = append(sub, md.rows[r])
		}
	}
	target := make([]*big.Int, md.d)
	for i := range target {
		target[i] = new(big.Int)
	}
	target[0] = big.NewInt(1)
	lambda, ok = ref.SolveRowSpan(sub, target, md.p)
	return rowsIdx, lambda, ok
}

// reconstruct the secret from share components (per holder, in row order).
func (md *mspData) reconstruct(set []sim.ID, shares map[sim.ID][]*big.Int) (*big.Int, bool, error) {
	rowsIdx, lambda, ok := md.spanCoefficients(set)
	if !ok {
		return nil, false, nil
	}
	acc := new(big.Int)
	pos := map[sim.ID]int{}
	for i, r := range rowsIdx {
		h := md.holder[r]
		comp := shares[h]
		k := pos[h]
		pos[h]++
		if k >= len(comp) {
			return nil, true, fmt.Errorf("holder %d owns %d rows but its share has %d components", h, len(md.rowsOf(h)), len(comp))
		}
		acc.Add(acc, new(big.Int).Mul(lambda[i], comp[k]))
	}
	return acc.Mod(acc, md.p), true, nil
}

func shareComponents[S algebra.PrimeFieldElement[S]](sh *kw.Share[S]) []*big.Int {
	var out []*big.Int
	for _, v := range sh.Value() {
		out = append(out, toBig(v))
	}
	return out
}

func newThreshold(t int, ids []sim.ID) (accessstructures.Monotone, error) {
	return threshold.NewThresholdAccessStructure(uint(t), quorumOf(ids))
}
