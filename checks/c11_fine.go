//go:build finestep

package checks

import (
	"fmt"
	"sort"
	"sync"

	"github.com/bronlabs/bron-crypto/pkg/network"

	"verif/sim"
)

// Fine-step mode: the instrumented router (see /verif/inst) calls the hooks
// below at every statement outside a critical section, at every lock and
// unlock, after every select / channel operation and as the first statement of
// every goroutine it starts. A task that reaches a hook parks; the scheduler
// releases exactly one parked task per step and then waits for quiescence, so
// that at most one goroutine executes router code between two scheduling
// points: a sequentially consistent interleaving chosen by the decision trace.

type fineTask struct {
	name     string
	goid     uint64
	park     chan struct{}
	site     string
	parked   bool
	wantLock *sync.Mutex
	holds    int
}

type fineSched struct {
	root   uint64 // the scheduler's own goroutine is never parked
	mu     sync.Mutex
	tasks  map[uint64]*fineTask
	order  []*fineTask
	owner  map[*sync.Mutex]*fineTask
	steps  int
	sites  map[string]int
	probes map[string]int
}

var fine *fineSched

func (fs *fineSched) task() *fineTask {
	id := sim.CurGoid()
	fs.mu.Lock()
	defer fs.mu.Unlock()
	t := fs.tasks[id]
	if t == nil {
		t = &fineTask{name: fmt.Sprintf("t%d", len(fs.order)), goid: id, park: make(chan struct{})}
		fs.tasks[id] = t
		fs.order = append(fs.order, t)
	}
	return t
}

func (fs *fineSched) yield(site string) {
	if sim.CurGoid() == fs.root {
		return
	}
	t := fs.task()
	if t.holds > 0 {
		return // inside a critical section nothing else can touch the protected state
	}
	fs.mu.Lock()
	t.site, t.parked = site, true
	fs.mu.Unlock()
	<-t.park
	fs.mu.Lock()
	t.parked = false
	fs.mu.Unlock()
}

func (fs *fineSched) lock(mu *sync.Mutex, site string) {
	if sim.CurGoid() == fs.root {
		mu.Lock() // at a quiescent state no task holds a router mutex
		return
	}
	t := fs.task()
	fs.mu.Lock()
	t.site, t.parked, t.wantLock = site, true, mu
	fs.mu.Unlock()
	<-t.park // released only while mu is free
	mu.Lock()
	fs.mu.Lock()
	t.parked, t.wantLock = false, nil
	t.holds++
	fs.owner[mu] = t
	fs.mu.Unlock()
}

func (fs *fineSched) unlock(mu *sync.Mutex) {
	if sim.CurGoid() == fs.root {
		mu.Unlock()
		return
	}
	t := fs.task()
	mu.Unlock()
	fs.mu.Lock()
	if t.holds > 0 {
		t.holds--
	}
	delete(fs.owner, mu)
	fs.mu.Unlock()
}

// installFine activates the hooks for one run.
func installFine() *fineSched {
	fs := &fineSched{root: sim.CurGoid(), tasks: map[uint64]*fineTask{}, owner: map[*sync.Mutex]*fineTask{}, sites: map[string]int{}, probes: map[string]int{}}
	fine = fs
	network.SimYieldHook = fs.yield
	network.SimLockHook = fs.lock
	network.SimUnlockHook = fs.unlock
	return fs
}

func uninstallFine() {
	network.SimYieldHook, network.SimLockHook, network.SimUnlockHook = nil, nil, nil
	if fine != nil {
		// release everything that is still parked so that the bubble can drain
		fine.mu.Lock()
		ts := append([]*fineTask(nil), fine.order...)
		fine.mu.Unlock()
		for _, t := range ts {
			fine.mu.Lock()
			p := t.parked
			fine.mu.Unlock()
			if p {
				select {
				case t.park <- struct{}{}:
				default:
				}
			}
		}
	}
	fine = nil
}

// events lists the parked tasks that may run (a task waiting for a held mutex is not enabled).
func (fs *fineSched) events() []sim.Event {
	fs.mu.Lock()
	defer fs.mu.Unlock()
	var evs []sim.Event
	ts := append([]*fineTask(nil), fs.order...)
	sort.Slice(ts, func(i, j int) bool { return ts[i].name < ts[j].name })
	for _, t := range ts {
		t := t
		if !t.parked {
			continue
		}
		if t.wantLock != nil && fs.owner[t.wantLock] != nil {
			continue
		}
		evs = append(evs, sim.Event{Key: "run " + t.name, Kind: "run", Apply: func(c *sim.Cluster) error {
			fs.mu.Lock()
			fs.steps++
			fs.sites[t.site]++
			fs.mu.Unlock()
			t.park <- struct{}{}
			return nil
		}})
	}
	return evs
}

// parkedCount reports how many tasks are parked at a scheduling point.
func (fs *fineSched) parkedCount() int {
	fs.mu.Lock()
	defer fs.mu.Unlock()
	n := 0
	for _, t := range fs.order {
		if t.parked {
			n++
		}
	}
	return n
}

func (fs *fineSched) dump() string {
	fs.mu.Lock()
	defer fs.mu.Unlock()
	out := ""
	for _, t := range fs.order {
		out += fmt.Sprintf("[%s at %s parked=%v] ", t.name, t.site, t.parked)
	}
	return out
}

func init() {
	fineDump = func(h any) string { return h.(*fineSched).dump() }
	fineAvailable = true
	fineInstall = func() any { return installFine() }
	fineUninstall = uninstallFine
	fineEvents = func(h any) []sim.Event { return h.(*fineSched).events() }
	fineParked = func(h any) int { return h.(*fineSched).parkedCount() }
	fineStats = func(h any) (int, map[string]int) {
		fs := h.(*fineSched)
		fs.mu.Lock()
		defer fs.mu.Unlock()
		m := map[string]int{}
		for k, v := range fs.sites {
			m[k] = v
		}
		return fs.steps, m
	}
}
