package main

// Meta is the static description of a claimed property's check.
type Meta struct {
	Level            string
	Rule             string
	Assumptions      []string
	Real, Stub       []string
	ExpectedProbes   []string
	FineStep         bool
	CrashIsViolation bool
	QuickBudgetS     int
	ThoroughBudgetS  int
}

var commonStub = []string{
	"transport (sim.Net implements network.Delivery: pooled messages, scheduler-chosen hand-over)",
	"clock (testing/synctest fake clock)",
	"random sources (sim.Rand per party, ChaCha8 keyed from VERIF_SEED)",
	"application / orchestrator (the harness plays the caller)",
}

var propMeta = map[string]Meta{
	"C11": {
		Level: "exploration",
		Rule: "Each evaluation is one seeded simulated run (router workload: 2-5 real Routers over the simulated Delivery, 1-3 client goroutines per party, 1-5 planned exchanges over nested namespaces, unique payload per (sender, recipient, full id); echo workload: 3-5 real echo-broadcast participants with one equivocating broadcaster). " +
			"Generated from VERIF_SEED: configuration, delivery policy, enabled fault kinds (swarm), every scheduler decision. Non-trivial = at least one delivery that was not the canonical FIFO choice or at least one injected fault. Distinct = hash of (workload, configuration class, full decision trace).",
		Assumptions: []string{
			"macro-step runs serialise at quiescence: one external event, then the bubble runs until every goroutine is durably blocked; interleavings inside pkg/network critical sections are explored only by the fine-step workload",
			"each correlation identifier is used for one exchange and far fewer than 10000 undelivered messages are outstanding (preconditions of the property)",
			"the reference mailbox model is written from the Router documentation; where the property is silent (receive invoked on an already failed router, two senders both equivocating) either documented outcome is accepted",
		},
		Real: []string{"pkg/network Router, routerCore reader goroutine, mailboxes, Namespaced views, SendTo/ReceiveFrom, Close", "pkg/network/echo rounds and runner", "pkg/network/exchange helpers", "pkg/base/serde (CBOR envelope)"},
		Stub: commonStub,
		ExpectedProbes: []string{"dup", "redeliver", "inject", "conflict", "cancel", "close", "terr", "recv_invoked_before_arrival", "recv_invoked_when_ready",
			"duplicate_after_consumption_buffered", "conflict_poisoned_receive", "cancel_with_partial_mailbox", "retry_after_cancel_completed", "inject_nonmember", "inject_other_namespace", "inject_nonparticipant", "inject_unknown_cid"},
		QuickBudgetS: 240, ThoroughBudgetS: 2400,
	},
}
