// Package ref is independent reference mathematics (math/big only, no import
// from the code under test): prime fields, linear algebra for span programmes,
// affine curve arithmetic and signature verification.
package ref

import "math/big"

func mod(x, p *big.Int) *big.Int {
	r := new(big.Int).Mod(x, p)
	return r
}

// SolveRowSpan finds lambda with sum_i lambda[i]*rows[i] == target (mod p), or
// reports that target is not in the row span. Plain Gaussian elimination.
func SolveRowSpan(rows [][]*big.Int, target []*big.Int, p *big.Int) ([]*big.Int, bool) {
	k := len(rows)
	d := len(target)
	if k == 0 {
		for _, t := range target {
			if mod(t, p).Sign() != 0 {
				return nil, false
			}
		}
		return nil, true
	}
	// system A x = b with A = rows^T (d x k), b = target
	a := make([][]*big.Int, d)
	for r := 0; r < d; r++ {
		a[r] = make([]*big.Int, k+1)
		for c := 0; c < k; c++ {
			a[r][c] = mod(rows[c][r], p)
		}
		a[r][k] = mod(target[r], p)
	}
	pivCol := make([]int, 0, d)
	row := 0
	for col := 0; col < k && row < d; col++ {
		sel := -1
		for r := row; r < d; r++ {
			if a[r][col].Sign() != 0 {
				sel = r
				break
			}
		}
		if sel < 0 {
			continue
		}
		a[row], a[sel] = a[sel], a[row]
		inv := new(big.Int).ModInverse(a[row][col], p)
		for c := col; c <= k; c++ {
			a[row][c] = mod(new(big.Int).Mul(a[row][c], inv), p)
		}
		for r := 0; r < d; r++ {
			if r == row || a[r][col].Sign() == 0 {
				continue
			}
			f := new(big.Int).Set(a[r][col])
			for c := col; c <= k; c++ {
				a[r][c] = mod(new(big.Int).Sub(a[r][c], new(big.Int).Mul(f, a[row][c])), p)
			}
		}
		pivCol = append(pivCol, col)
		row++
	}
	for r := row; r < d; r++ {
		if a[r][k].Sign() != 0 {
			return nil, false
		}
	}
	x := make([]*big.Int, k)
	for i := range x {
		x[i] = new(big.Int)
	}
	for r, c := range pivCol {
		x[c] = new(big.Int).Set(a[r][k])
	}
	return x, true
}

// Rank of a matrix over F_p.
func Rank(rows [][]*big.Int, p *big.Int) int {
	if len(rows) == 0 {
		return 0
	}
	d := len(rows[0])
	a := make([][]*big.Int, len(rows))
	for i := range rows {
		a[i] = make([]*big.Int, d)
		for j := range rows[i] {
			a[i][j] = mod(rows[i][j], p)
		}
	}
	rank := 0
	for col := 0; col < d && rank < len(a); col++ {
		sel := -1
		for r := rank; r < len(a); r++ {
			if a[r][col].Sign() != 0 {
				sel = r
				break
			}
		}
		if sel < 0 {
			continue
		}
		a[rank], a[sel] = a[sel], a[rank]
		inv := new(big.Int).ModInverse(a[rank][col], p)
		for r := rank + 1; r < len(a); r++ {
			if a[r][col].Sign() == 0 {
				continue
			}
			f := mod(new(big.Int).Mul(a[r][col], inv), p)
			for c := col; c < d; c++ {
				a[r][c] = mod(new(big.Int).Sub(a[r][c], new(big.Int).Mul(f, a[rank][c])), p)
			}
		}
		rank++
	}
	return rank
}

// Dot returns sum a[i]*b[i] mod p.
func Dot(a, b []*big.Int, p *big.Int) *big.Int {
	acc := new(big.Int)
	for i := range a {
		acc.Add(acc, new(big.Int).Mul(a[i], b[i]))
	}
	return acc.Mod(acc, p)
}
