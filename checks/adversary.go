package checks

import (
	"encoding/hex"
	"fmt"
	"sort"
	"strconv"
	"strings"

	"verif/cbor"
	"verif/sim"
)

const (
	echoR1Suffix = ":EchoRound1P2P"
	echoR2Suffix = ":EchoRound2P2P"
)

// tamper is one fault of the wire adversary: one operator applied to one leaf
// (or to the whole) of one protocol message leaving the corrupt party.
type tamper struct {
	CID  string // base correlation id incl. namespace, echo suffix stripped
	To   sim.ID // 0: every copy (a broadcast, altered identically for all recipients)
	Path string // deep leaf path inside the protocol message ("" for whole-message operators)
	Op   string // flip set inc swapleaf trunc extend drop replaymsg
	Arg  string
}

func (t *tamper) String() string {
	return fmt.Sprintf("%s to=%d path=%q op=%s arg=%.24s", t.CID, t.To, t.Path, t.Op, t.Arg)
}

func (t *tamper) params() map[string]string {
	return map[string]string{"cid": t.CID, "to": strconv.FormatUint(uint64(t.To), 10), "path": t.Path, "op": t.Op, "arg": t.Arg}
}

func tamperFromParams(p map[string]string) *tamper {
	if p == nil || p["op"] == "" {
		return nil
	}
	to, _ := strconv.ParseUint(p["to"], 10, 64)
	return &tamper{CID: p["cid"], To: sim.ID(to), Path: p["path"], Op: p["op"], Arg: p["arg"]}
}

// wireMsg is a recorded protocol message (pass 1 inventory).
type wireMsg struct {
	From, To  sim.ID // To = 0 for broadcasts
	CID       string
	Broadcast bool
	Body      []byte
}

// adversary sits in Net.OnSend. It records every protocol message and applies
// the plan to the matching messages of the corrupt party.
type adversary struct {
	corrupt sim.ID
	plan    *tamper
	Fired   int
	Changed bool
	Err     error
	Log     []wireMsg
	seen    map[string]bool
}

func newAdversary(c sim.ID, plan *tamper) *adversary {
	return &adversary{corrupt: c, plan: plan, seen: map[string]bool{}}
}

// unwrap extracts (base cid, protocol message bytes, isEchoR1, isEchoR2) from a router envelope.
func unwrap(raw []byte) (envTree *cbor.Node, cid string, body []byte, echo1, echo2 bool, err error) {
	envTree, err = cbor.Parse(raw)
	if err != nil {
		return nil, "", nil, false, false, err
	}
	cl, ok := envTree.Find(".correlationID")
	pl, ok2 := envTree.Find(".payload")
	if !ok || !ok2 || cl.Node.Major != 3 || pl.Node.Major != 2 {
		return nil, "", nil, false, false, fmt.Errorf("not a router envelope")
	}
	cid = string(cl.Node.Bytes)
	body = pl.Node.Bytes
	switch {
	case strings.HasSuffix(cid, echoR2Suffix):
		return envTree, strings.TrimSuffix(cid, echoR2Suffix), body, false, true, nil
	case strings.HasSuffix(cid, echoR1Suffix):
		cid = strings.TrimSuffix(cid, echoR1Suffix)
		r1, e := cbor.Parse(body)
		if e != nil {
			return nil, "", nil, false, false, e
		}
		in, ok := r1.Find(".payload")
		if !ok || in.Node.Major != 2 {
			return nil, "", nil, false, false, fmt.Errorf("echo round 1 without payload")
		}
		return envTree, cid, in.Node.Bytes, true, false, nil
	}
	return envTree, cid, body, false, false, nil
}

// rewrap puts an altered protocol message back into the envelope.
func rewrap(envTree *cbor.Node, body []byte, echo1 bool) []byte {
	pl, _ := envTree.Find(".payload")
	if echo1 {
		r1, _ := cbor.Parse(pl.Node.Bytes)
		in, _ := r1.Find(".payload")
		in.Node.Bytes = body
		pl.Node.Bytes = r1.Encode()
	} else {
		pl.Node.Bytes = body
	}
	return envTree.Encode()
}

func isBroadcastCID(cid string) bool { return strings.HasSuffix(cid, "BROADCAST:") }

func (a *adversary) onSend(m *sim.Msg) []*sim.Msg {
	envTree, cid, body, echo1, echo2, err := unwrap(m.Bytes)
	if err != nil || echo2 {
		return []*sim.Msg{m}
	}
	bc := echo1 || isBroadcastCID(cid)
	key := fmt.Sprintf("%d|%s|%d", m.From, cid, m.To)
	if bc {
		key = fmt.Sprintf("%d|%s|bc", m.From, cid)
	}
	if !a.seen[key] {
		a.seen[key] = true
		w := wireMsg{From: m.From, To: m.To, CID: cid, Broadcast: bc, Body: append([]byte(nil), body...)}
		if bc {
			w.To = 0
		}
		a.Log = append(a.Log, w)
	}
	p := a.plan
	if p == nil || m.From != a.corrupt || cid != p.CID || (p.To != 0 && p.To != m.To) {
		return []*sim.Msg{m}
	}
	a.Fired++
	if p.Op == "drop" {
		a.Changed = true
		return nil
	}
	nb, err := applyTamper(body, p)
	if err != nil {
		a.Err = err
		return []*sim.Msg{m}
	}
	if string(nb) != string(body) {
		a.Changed = true
	}
	m.Bytes = rewrap(envTree, nb, echo1)
	return []*sim.Msg{m}
}

// applyTamper alters one protocol message.
func applyTamper(body []byte, p *tamper) ([]byte, error) {
	if p.Op == "replaymsg" {
		return hex.DecodeString(p.Arg)
	}
	tr, err := cbor.ParseDeep(body)
	if err != nil {
		return nil, fmt.Errorf("message is not CBOR: %w", err)
	}
	l, ok := tr.Find(p.Path)
	if !ok {
		return nil, fmt.Errorf("path %q not present", p.Path)
	}
	n := l.Node
	switch p.Op {
	case "flip":
		bit, _ := strconv.Atoi(p.Arg)
		switch {
		case (n.Major == 2 || n.Major == 3) && len(n.Bytes) > 0:
			n.Bytes[(bit/8)%len(n.Bytes)] ^= 1 << (bit % 8)
		case n.Major <= 1:
			n.Arg ^= 1 << (bit % 3)
		case n.Major == 7:
			n.AI ^= 1
		default:
			return nil, fmt.Errorf("flip on %s", n.Kind())
		}
	case "set":
		if n.Major == 2 || n.Major == 3 {
			b, err := hex.DecodeString(p.Arg)
			if err != nil {
				return nil, err
			}
			n.Bytes = b
		} else if n.Major <= 1 {
			v, err := strconv.ParseUint(p.Arg, 10, 64)
			if err != nil {
				return nil, err
			}
			n.Arg = v
		} else {
			return nil, fmt.Errorf("set on %s", n.Kind())
		}
	case "inc":
		if n.Major > 1 {
			return nil, fmt.Errorf("inc on %s", n.Kind())
		}
		n.Arg++
	case "swapleaf":
		o, ok := tr.Find(p.Arg)
		if !ok {
			return nil, fmt.Errorf("path %q not present", p.Arg)
		}
		*n, *o.Node = *o.Node, *n
	case "trunc":
		switch {
		case n.Major == 4 && len(n.Kids) > 0:
			n.Kids = n.Kids[:len(n.Kids)-1]
		case n.Major == 5 && len(n.Kids) >= 2:
			n.Kids = n.Kids[:len(n.Kids)-2]
		case (n.Major == 2 || n.Major == 3) && n.Nested == nil && len(n.Bytes) > 0:
			n.Bytes = n.Bytes[:len(n.Bytes)-1]
		default:
			return nil, fmt.Errorf("trunc on %s", n.Kind())
		}
	case "extend":
		switch {
		case n.Major == 4 && len(n.Kids) > 0:
			n.Kids = append(n.Kids, n.Kids[len(n.Kids)-1].Clone())
		case (n.Major == 2 || n.Major == 3) && n.Nested == nil:
			n.Bytes = append(n.Bytes, 0)
		default:
			return nil, fmt.Errorf("extend on %s", n.Kind())
		}
	default:
		return nil, fmt.Errorf("unknown operator %q", p.Op)
	}
	return tr.Encode(), nil
}

// ---- cell enumeration from a recorded honest run ----

// stripNS removes the session namespace ("A-dkg/Foo" -> "dkg/Foo").
func stripNS(cid string) string {
	if i := strings.IndexByte(cid, '-'); i >= 0 && i <= 2 {
		return cid[i+1:]
	}
	return cid
}

func swapNS(cid, from, to string) string {
	if strings.HasPrefix(cid, from+"-") {
		return to + cid[len(from):]
	}
	return cid
}

type cell struct {
	t     tamper
	label string // stable cell name: scenario-independent part
}

// enumerateCells derives the fault cells for corrupt party c in session ns
// ("A") from the inventory log of an honest run that contained a parallel
// session "B". only restricts to message types whose stripped cid has one of
// the given prefixes (the protocol under test, not its session setup).
func enumerateCells(log []wireMsg, c sim.ID, ns string, only []string, maxLeavesPerMsg int, light bool) []cell {
	// light: for scenarios whose single run costs tens of seconds, the operators that
	// add little over their neighbours are left out (high-bit flip, byte-string
	// truncate/extend, the last-instance copy of replace-by-another-value)
	find := func(from sim.ID, cid string, to sim.ID) *wireMsg {
		for i := range log {
			w := &log[i]
			if w.From == from && w.CID == cid && (w.Broadcast || w.To == to) {
				return w
			}
		}
		return nil
	}
	var cells []cell
	curLeaf := ""
	add := func(t tamper, what string) {
		pl := curLeaf
		if t.Path == "" {
			pl = "(message)"
		}
		cells = append(cells, cell{t: t, label: fmt.Sprintf("%s|to=%s|%s|%s", stripNS(t.CID), toLabel(t.To), pl, what)})
	}
	doneType := map[string]bool{}
	for i := range log {
		w := &log[i]
		if w.From != c || !strings.HasPrefix(w.CID, ns+"-") {
			continue
		}
		ok := len(only) == 0
		for _, p := range only {
			if strings.HasPrefix(stripNS(w.CID), p) {
				ok = true
			}
		}
		if !ok {
			continue
		}
		typeKey := w.CID
		if !w.Broadcast {
			// one recipient per unicast type is tampered; the first in the log
			if doneType[typeKey] {
				continue
			}
		}
		doneType[typeKey] = true
		to := w.To
		tr, err := cbor.ParseDeep(w.Body)
		if err != nil {
			continue
		}
		// whole-message operators
		add(tamper{CID: w.CID, To: to, Op: "drop"}, "drop")
		var otherSender *wireMsg
		for j := range log {
			o := &log[j]
			if o.From != c && o.CID == w.CID && (o.Broadcast || o.To == to || true) {
				otherSender = o
				break
			}
		}
		if otherSender != nil {
			add(tamper{CID: w.CID, To: to, Op: "replaymsg", Arg: hex.EncodeToString(otherSender.Body)}, "replaymsg:other-sender")
		}
		if par := find(c, swapNS(w.CID, ns, "B"), to); par != nil {
			add(tamper{CID: w.CID, To: to, Op: "replaymsg", Arg: hex.EncodeToString(par.Body)}, "replaymsg:parallel-session")
		}
		if !w.Broadcast {
			for j := range log {
				o := &log[j]
				if o.From == c && o.CID == w.CID && !o.Broadcast && o.To != to {
					add(tamper{CID: w.CID, To: to, Op: "replaymsg", Arg: hex.EncodeToString(o.Body)}, "replaymsg:other-recipient-copy")
					break
				}
			}
		}
		// leaf operators; leaves are grouped by normalised path, first and last instance taken
		groups := map[string][]cbor.Leaf{}
		allLeaves := tr.Leaves()
		var order []string
		tr.Walk(func(l cbor.Leaf) {
			if !l.Node.IsLeaf() && !(l.Node.Major == 4 && len(l.Node.Kids) > 0) {
				return
			}
			np := cbor.NormPath(l.Path) + ":" + kindClass(l.Node)
			if groups[np] == nil {
				order = append(order, np)
			}
			groups[np] = append(groups[np], l)
		})
		sort.Strings(order)
		if maxLeavesPerMsg > 0 && len(order) > maxLeavesPerMsg {
			// keep an evenly spread subset, deterministic
			var sub []string
			for k := 0; k < maxLeavesPerMsg; k++ {
				sub = append(sub, order[k*len(order)/maxLeavesPerMsg])
			}
			order = sub
		}
		var otherTree, parTree *cbor.Node
		if otherSender != nil {
			otherTree, _ = cbor.ParseDeep(otherSender.Body)
		}
		if par := find(c, swapNS(w.CID, ns, "B"), to); par != nil {
			parTree, _ = cbor.ParseDeep(par.Body)
		}
		for _, np := range order {
			curLeaf = np
			ls := groups[np]
			picks := []cbor.Leaf{ls[0]}
			if len(ls) > 1 {
				picks = append(picks, ls[len(ls)-1])
			}
			for pi, l := range picks {
				inst := fmt.Sprintf("#%d", pi)
				n := l.Node
				if n.Major == 4 {
					add(tamper{CID: w.CID, To: to, Path: l.Path, Op: "trunc"}, "trunc"+inst)
					add(tamper{CID: w.CID, To: to, Path: l.Path, Op: "extend"}, "extend"+inst)
					continue
				}
				add(tamper{CID: w.CID, To: to, Path: l.Path, Op: "flip", Arg: "0"}, "flip-low"+inst)
				if (n.Major == 2 || n.Major == 3) && len(n.Bytes) > 1 && !light {
					add(tamper{CID: w.CID, To: to, Path: l.Path, Op: "flip", Arg: strconv.Itoa(len(n.Bytes)*8 - 1)}, "flip-high"+inst)
					if n.Bytes[len(n.Bytes)-1] != 0 {
						// dropping a trailing zero byte may decode (zero-padded) to the very same value: not an alteration
						add(tamper{CID: w.CID, To: to, Path: l.Path, Op: "trunc"}, "trunc"+inst)
					}
					add(tamper{CID: w.CID, To: to, Path: l.Path, Op: "extend"}, "extend"+inst)
				}
				if n.Major <= 1 {
					add(tamper{CID: w.CID, To: to, Path: l.Path, Op: "inc"}, "inc"+inst)
				}
				// replace by another valid value of the same position
				for si, t := range []*cbor.Node{otherTree, parTree} {
					src := []string{"other-sender", "parallel-session"}[si]
					if t == nil || (light && pi > 0) {
						continue
					}
					if o, ok := t.Find(l.Path); ok && o.Node.IsLeaf() && o.Node.Major == n.Major {
						if n.Major == 2 || n.Major == 3 {
							if string(o.Node.Bytes) != string(n.Bytes) {
								add(tamper{CID: w.CID, To: to, Path: l.Path, Op: "set", Arg: hex.EncodeToString(o.Node.Bytes)}, "set:"+src+inst)
							}
						} else if n.Major <= 1 && o.Node.Arg != n.Arg {
							add(tamper{CID: w.CID, To: to, Path: l.Path, Op: "set", Arg: strconv.FormatUint(o.Node.Arg, 10)}, "set:"+src+inst)
						}
					}
				}
				// swap with a sibling field: the nearest following leaf of the same kind and
				// length whose path differs in exactly one map key (GammaU <-> GammaV): two
				// fields altered together with offsetting effect on any check that sums them
				if pi == 0 && (n.Major == 2 || n.Major == 3) && len(n.Bytes) > 0 {
					if sib, ok := siblingLeaf(allLeaves, l); ok {
						add(tamper{CID: w.CID, To: to, Path: l.Path, Op: "swapleaf", Arg: sib.Path}, "swapsibling:"+cbor.NormPath(sib.Path))
					}
				}
				// swap with another leaf of the same kind in the same message
				if len(ls) > 1 && pi == 0 && string(ls[0].Node.Bytes) != string(ls[len(ls)-1].Node.Bytes) {
					add(tamper{CID: w.CID, To: to, Path: ls[0].Path, Op: "swapleaf", Arg: ls[len(ls)-1].Path}, "swapleaf")
				}
			}
		}
	}
	sort.SliceStable(cells, func(i, j int) bool { return cells[i].label < cells[j].label })
	return cells
}

// siblingLeaf finds the nearest following leaf of the same major type and byte
// length whose path has the same shape and differs from l's in exactly one map key.
func siblingLeaf(all []cbor.Leaf, l cbor.Leaf) (cbor.Leaf, bool) {
	split := func(p string) []string { return strings.FieldsFunc(p, func(r rune) bool { return r == '.' }) }
	a := split(l.Path)
	seen := false
	for _, o := range all {
		if o.Path == l.Path {
			seen = true
			continue
		}
		if !seen || o.Node.Major != l.Node.Major || len(o.Node.Bytes) != len(l.Node.Bytes) || string(o.Node.Bytes) == string(l.Node.Bytes) {
			continue
		}
		b := split(o.Path)
		if len(a) != len(b) {
			continue
		}
		diff := 0
		for i := range a {
			if a[i] != b[i] {
				diff++
				if strings.ContainsAny(a[i], "[{") || strings.ContainsAny(b[i], "[{") {
					diff = 99 // an array position, not a field name (that is the swapleaf operator)
				}
			}
		}
		if diff == 1 {
			return o, true
		}
	}
	return cbor.Leaf{}, false
}

func kindClass(n *cbor.Node) string {
	if n.Major == 2 {
		return "bytes"
	}
	return n.Kind()
}

func toLabel(id sim.ID) string {
	if id == 0 {
		return "all"
	}
	return "one"
}
