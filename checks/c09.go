package checks

import (
	"bytes"
	"crypto/sha256"
	"encoding/hex"
	"fmt"
	"io"
	"math/big"
	"math/rand/v2"
	"sort"
	"strconv"
	"strings"

	"github.com/bronlabs/bron-crypto/pkg/base/algebra"
	"github.com/bronlabs/bron-crypto/pkg/base/curves/k256"
	"github.com/bronlabs/bron-crypto/pkg/base/curves/p256"
	"github.com/bronlabs/bron-crypto/pkg/base/datastructures/hashmap"
	"github.com/bronlabs/bron-crypto/pkg/base/serde"
	rvbbot "github.com/bronlabs/bron-crypto/pkg/mpc/rvole/bbot"
	rvsoft "github.com/bronlabs/bron-crypto/pkg/mpc/rvole/softspoken"
	"github.com/bronlabs/bron-crypto/pkg/mpc/session"
	"github.com/bronlabs/bron-crypto/pkg/network"
	"github.com/bronlabs/bron-crypto/pkg/ot/base/ecbbot"
	"github.com/bronlabs/bron-crypto/pkg/ot/base/vsot"
	"github.com/bronlabs/bron-crypto/pkg/ot/extension/softspoken"

	"verif/cbor"
	"verif/harness"
	"verif/sim"
)

// ---- lock-step session setup (round-by-round API, CBOR on every hop) ----

func viaCBOR[T any](v T) (T, error) {
	b, err := serde.MarshalCBOR(v)
	if err != nil {
		var z T
		return z, err
	}
	return serde.UnmarshalCBOR[T](b)
}

// lockstepSession drives the real session participants round by round; order
// is the order in which the parties' rounds are called (a scheduler choice).
func lockstepSession(ids []sim.ID, seed sim.Seed, order *rand.Rand) (map[sim.ID]*session.Context, error) {
	ps := map[sim.ID]*session.Participant{}
	for _, id := range ids {
		p, err := session.NewParticipant(id, quorumOf(ids), sim.NewRand(seed.Sub(fmt.Sprintf("rand/%d/sess", id))))
		if err != nil {
			return nil, err
		}
		ps[id] = p
	}
	perm := func() []sim.ID {
		o := append([]sim.ID(nil), ids...)
		if order != nil {
			order.Shuffle(len(o), func(i, j int) { o[i], o[j] = o[j], o[i] })
		}
		return o
	}
	r1 := map[sim.ID]*session.Round1Broadcast{}
	for _, id := range perm() {
		m, err := ps[id].Round1()
		if err != nil {
			return nil, err
		}
		if r1[id], err = viaCBOR(m); err != nil {
			return nil, err
		}
	}
	r2b := map[sim.ID]*session.Round2Broadcast{}
	r2u := map[sim.ID]network.OutgoingUnicasts[*session.Round2P2P, *session.Participant]{}
	for _, id := range perm() {
		in := hashmap.NewComparable[sim.ID, *session.Round1Broadcast]()
		for _, o := range ids {
			if o != id {
				in.Put(o, r1[o])
			}
		}
		b, u, err := ps[id].Round2(in.Freeze())
		if err != nil {
			return nil, err
		}
		if r2b[id], err = viaCBOR(b); err != nil {
			return nil, err
		}
		r2u[id] = u
	}
	r3u := map[sim.ID]network.OutgoingUnicasts[*session.Round3P2P, *session.Participant]{}
	for _, id := range perm() {
		inB := hashmap.NewComparable[sim.ID, *session.Round2Broadcast]()
		inU := hashmap.NewComparable[sim.ID, *session.Round2P2P]()
		for _, o := range ids {
			if o == id {
				continue
			}
			inB.Put(o, r2b[o])
			m, _ := r2u[o].Get(id)
			mm, err := viaCBOR(m)
			if err != nil {
				return nil, err
			}
			inU.Put(o, mm)
		}
		u, err := ps[id].Round3(inB.Freeze(), inU.Freeze())
		if err != nil {
			return nil, err
		}
		r3u[id] = u
	}
	out := map[sim.ID]*session.Context{}
	for _, id := range perm() {
		inU := hashmap.NewComparable[sim.ID, *session.Round3P2P]()
		for _, o := range ids {
			if o == id {
				continue
			}
			m, _ := r3u[o].Get(id)
			mm, err := viaCBOR(m)
			if err != nil {
				return nil, err
			}
			inU.Put(o, mm)
		}
		c, err := ps[id].Round4(inU.Freeze())
		if err != nil {
			return nil, err
		}
		out[id] = c
	}
	return out, nil
}

// ---- two-party pipeline with a fault hook on every message ----

type pairHook struct {
	plan     *tamper // CID = stage name; Path/Op/Arg as usual
	log      map[string][]byte
	order    []string
	fired    bool
	changed  bool
	vacuous  bool
	undecod  bool
	applyErr error
	probes   map[string]int
}

// hop sends msg from one party to the other: encode, maybe alter, decode.
func hop[T any](h *pairHook, stage string, msg T) (T, error) {
	var zero T
	b, err := serde.MarshalCBOR(msg)
	if err != nil {
		return zero, fmt.Errorf("encode %s: %w", stage, err)
	}
	if h.log != nil {
		h.log[stage] = b
		h.order = append(h.order, stage)
	}
	if h.plan != nil && h.plan.CID == stage {
		h.fired = true
		nb, err := applyTamper(b, h.plan)
		if err != nil {
			h.applyErr = err
		} else {
			if !bytes.Equal(nb, b) {
				h.changed = true
			}
			// vacuity: does the altered encoding decode to the very same message?
			if v, derr := serde.UnmarshalCBOR[T](nb); derr != nil {
				h.undecod = true
			} else if rb, rerr := serde.MarshalCBOR(v); rerr == nil && bytes.Equal(rb, b) {
				h.vacuous = true
			}
			b = nb
		}
	}
	return serde.UnmarshalCBOR[T](b)
}

type pairResult struct {
	// errSide is "A" or "B" (who returned the error), errStage the hop after which it happened
	errSide, errStage string
	err               error
	corrViolation     string // correlation broken in a completed run
	completed         bool
	panicVal          any
}

func choiceBit(c []byte, i int) byte { return (c[i/8] >> (i % 8)) & 1 }

func drawChoices(w *rand.Rand, xi int) ([]byte, string) {
	c := make([]byte, xi/8)
	switch w.IntN(4) {
	case 0:
		return c, "all-zero"
	case 1:
		for i := range c {
			c[i] = 0xff
		}
		return c, "all-one"
	case 2:
		for i := range c {
			c[i] = 0xaa
		}
		return c, "alternating"
	}
	for i := range c {
		c[i] = byte(w.IntN(256))
	}
	return c, "random"
}

// --- protocol drivers; every driver returns the pair result ---

func runECBBOT[G algebra.PrimeGroupElement[G, S], S algebra.PrimeFieldElement[S]](group algebra.PrimeGroup[G, S], ctxs map[sim.ID]*session.Context, seed sim.Seed, xi, l int, choices []byte, h *pairHook) (res pairResult) {
	suite, err := ecbbot.NewSuite(xi, l, group)
	if err != nil {
		return pairResult{err: err, errSide: "setup"}
	}
	snd, err := ecbbot.NewSender(ctxs[1], suite, sim.NewRand(seed.Sub("rand/1/ot")))
	if err != nil {
		return pairResult{err: err, errSide: "setup"}
	}
	rcv, err := ecbbot.NewReceiver(ctxs[2], suite, sim.NewRand(seed.Sub("rand/2/ot")))
	if err != nil {
		return pairResult{err: err, errSide: "setup"}
	}
	r1, err := snd.Round1()
	if err != nil {
		return pairResult{err: err, errSide: "A", errStage: "start"}
	}
	r1, err = hop(h, "ecbbot.R1", r1)
	if err != nil {
		return pairResult{err: err, errSide: "B", errStage: "ecbbot.R1"}
	}
	// A call the library rejects (wrong-length choice vector) must leave the receiver
	// as it was: the caller corrects its argument and calls again (fault: an invalid
	// call in the middle of a session).
	if seed.Sub("rejected-call").U64()%3 == 0 && len(choices) > 1 {
		if _, _, rerr := rcv.Round2(r1, choices[:len(choices)-1]); rerr == nil {
			return pairResult{completed: true, corrViolation: "a choice vector of the wrong length was accepted"}
		}
		if h.probes != nil {
			h.probes["rejected_call_then_retry"]++
		}
	}
	r2, ro, err := rcv.Round2(r1, choices)
	if err != nil {
		return pairResult{err: err, errSide: "B", errStage: "ecbbot.R1"}
	}
	r2, err = hop(h, "ecbbot.R2", r2)
	if err != nil {
		return pairResult{err: err, errSide: "A", errStage: "ecbbot.R2"}
	}
	so, err := snd.Round3(r2)
	if err != nil {
		return pairResult{err: err, errSide: "A", errStage: "ecbbot.R2"}
	}
	res.completed = true
	if len(so.Messages) != xi || len(ro.Messages) != xi || !bytes.Equal(ro.Choices, choices) {
		res.corrViolation = "output shape or echoed choices wrong"
		return res
	}
	for i := 0; i < xi; i++ {
		c := choiceBit(choices, i)
		for j := 0; j < l; j++ {
			if !ro.Messages[i][j].Equal(so.Messages[i][c][j]) {
				res.corrViolation = fmt.Sprintf("instance %d block %d: receiver output differs from sender message[%d]", i, j, c)
				return res
			}
			if so.Messages[i][0][j].Equal(so.Messages[i][1][j]) {
				res.corrViolation = fmt.Sprintf("instance %d block %d: the two sender messages are equal", i, j)
				return res
			}
		}
	}
	return res
}

func checkByteOT(xi, l int, choices []byte, sm [][2][][]byte, rc []byte, rm [][][]byte) string {
	if len(sm) != xi || len(rm) != xi || !bytes.Equal(rc, choices) {
		return "output shape or echoed choices wrong"
	}
	for i := 0; i < xi; i++ {
		c := choiceBit(choices, i)
		if len(rm[i]) != l || len(sm[i][0]) != l || len(sm[i][1]) != l {
			return fmt.Sprintf("instance %d: wrong block count", i)
		}
		for j := 0; j < l; j++ {
			if !bytes.Equal(rm[i][j], sm[i][c][j]) {
				return fmt.Sprintf("instance %d block %d: receiver output differs from sender message[%d]", i, j, c)
			}
			if bytes.Equal(sm[i][0][j], sm[i][1][j]) {
				return fmt.Sprintf("instance %d block %d: the two sender messages are equal", i, j)
			}
		}
	}
	return ""
}

// runVSOT runs the base OT; party 1 is the sender, party 2 the receiver.
func runVSOT(ctxs map[sim.ID]*session.Context, seed sim.Seed, xi, l int, choices []byte, h *pairHook, label string) (pairResult, *vsot.SenderOutput, *vsot.ReceiverOutput) {
	fail := func(side, stage string, err error) (pairResult, *vsot.SenderOutput, *vsot.ReceiverOutput) {
		return pairResult{err: err, errSide: side, errStage: stage}, nil, nil
	}
	suite, err := vsot.NewSuite(xi, l, k256.NewCurve(), sha256.New)
	if err != nil {
		return fail("setup", "", err)
	}
	snd, err := vsot.NewSender(ctxs[1], suite, sim.NewRand(seed.Sub("rand/1/"+label)))
	if err != nil {
		return fail("setup", "", err)
	}
	rcv, err := vsot.NewReceiver(ctxs[2], suite, sim.NewRand(seed.Sub("rand/2/"+label)))
	if err != nil {
		return fail("setup", "", err)
	}
	r1, err := snd.Round1()
	if err != nil {
		return fail("A", "start", err)
	}
	if r1, err = hop(h, label+".R1", r1); err != nil {
		return fail("B", label+".R1", err)
	}
	r2, ro, err := rcv.Round2(r1, choices)
	if err != nil {
		return fail("B", label+".R1", err)
	}
	if r2, err = hop(h, label+".R2", r2); err != nil {
		return fail("A", label+".R2", err)
	}
	r3, so, err := snd.Round3(r2)
	if err != nil {
		return fail("A", label+".R2", err)
	}
	if r3, err = hop(h, label+".R3", r3); err != nil {
		return fail("B", label+".R3", err)
	}
	r4, err := rcv.Round4(r3)
	if err != nil {
		return fail("B", label+".R3", err)
	}
	if r4, err = hop(h, label+".R4", r4); err != nil {
		return fail("A", label+".R4", err)
	}
	r5, err := snd.Round5(r4)
	if err != nil {
		return fail("A", label+".R4", err)
	}
	if r5, err = hop(h, label+".R5", r5); err != nil {
		return fail("B", label+".R5", err)
	}
	if err := rcv.Round6(r5); err != nil {
		return fail("B", label+".R5", err)
	}
	res := pairResult{completed: true}
	res.corrViolation = checkByteOT(xi, l, choices, so.Messages, ro.Choices, ro.Messages)
	return res, so, ro
}

// runSoftspoken: base OT (party 1 sends), then the extension with roles
// reversed as the library requires (extension sender holds base receiver seeds).
func runSoftspoken(ctxs map[sim.ID]*session.Context, seed sim.Seed, xi, l int, choices []byte, w *rand.Rand, h *pairHook) pairResult {
	baseChoices := make([]byte, softspoken.Kappa/8)
	for i := range baseChoices {
		baseChoices[i] = byte(w.IntN(256))
	}
	bres, so, ro := runVSOT(ctxs, seed, softspoken.Kappa, 1, baseChoices, h, "base")
	if bres.err != nil || bres.corrViolation != "" {
		return bres
	}
	suite, err := softspoken.NewSuite(xi, l, sha256.New)
	if err != nil {
		return pairResult{err: err, errSide: "setup"}
	}
	// extension receiver = party 1 (holds base sender seeds), extension sender = party 2
	rcv, err := softspoken.NewReceiver(ctxs[1], so, suite, sim.NewRand(seed.Sub("rand/1/ext")))
	if err != nil {
		return pairResult{err: err, errSide: "setup"}
	}
	snd, err := softspoken.NewSender(ctxs[2], ro, suite, sim.NewRand(seed.Sub("rand/2/ext")))
	if err != nil {
		return pairResult{err: err, errSide: "setup"}
	}
	r1, rout, err := rcv.Round1(choices)
	if err != nil {
		return pairResult{err: err, errSide: "A", errStage: "start"}
	}
	if r1, err = hop(h, "ext.R1", r1); err != nil {
		return pairResult{err: err, errSide: "B", errStage: "ext.R1"}
	}
	sout, err := snd.Round2(r1)
	if err != nil {
		return pairResult{err: err, errSide: "B", errStage: "ext.R1"}
	}
	res := pairResult{completed: true}
	res.corrViolation = checkByteOT(xi, l, choices, sout.Messages, rout.Choices, rout.Messages)
	return res
}

func drawMulInputs[S algebra.PrimeFieldElement[S]](f algebra.PrimeField[S], w *rand.Rand, l int) ([]S, error) {
	a := make([]S, l)
	q := new(big.Int).SetBytes(f.Order().Bytes())
	for i := range a {
		var v *big.Int
		switch w.IntN(5) {
		case 0:
			v = big.NewInt(0)
		case 1:
			v = big.NewInt(1)
		case 2:
			v = new(big.Int).Sub(q, big.NewInt(1))
		default:
			b := make([]byte, 40)
			for k := range b {
				b[k] = byte(w.IntN(256))
			}
			v = new(big.Int).Mod(new(big.Int).SetBytes(b), q)
		}
		buf := make([]byte, len(f.One().Bytes()))
		v.FillBytes(buf)
		s, err := f.FromBytes(buf)
		if err != nil {
			return nil, err
		}
		a[i] = s
	}
	return a, nil
}

func checkProduct[S algebra.PrimeFieldElement[S]](f algebra.PrimeField[S], a []S, b S, c, d []S) string {
	q := new(big.Int).SetBytes(f.Order().Bytes())
	if len(c) != len(a) || len(d) != len(a) {
		return "output vectors have the wrong length"
	}
	for i := range a {
		lhs := new(big.Int).Add(toBig(c[i]), toBig(d[i]))
		lhs.Mod(lhs, q)
		rhs := new(big.Int).Mul(toBig(a[i]), toBig(b))
		rhs.Mod(rhs, q)
		if lhs.Cmp(rhs) != 0 {
			return fmt.Sprintf("component %d: c+d != a*b (reference arithmetic)", i)
		}
	}
	return ""
}

func runRVOLEbbot(ctxs map[sim.ID]*session.Context, seed sim.Seed, l int, w *rand.Rand, h *pairHook) pairResult {
	suite, err := rvbbot.NewSuite(l, k256.NewCurve())
	if err != nil {
		return pairResult{err: err, errSide: "setup"}
	}
	alice, err := rvbbot.NewAlice(ctxs[1], suite, sim.NewRand(seed.Sub("rand/1/mul")))
	if err != nil {
		return pairResult{err: err, errSide: "setup"}
	}
	bob, err := rvbbot.NewBob(ctxs[2], suite, sim.NewRand(seed.Sub("rand/2/mul")))
	if err != nil {
		return pairResult{err: err, errSide: "setup"}
	}
	a, err := drawMulInputs(k256.NewScalarField(), w, l)
	if err != nil {
		return pairResult{err: err, errSide: "setup"}
	}
	r1, err := alice.Round1()
	if err != nil {
		return pairResult{err: err, errSide: "A", errStage: "start"}
	}
	if r1, err = hop(h, "mul.R1", r1); err != nil {
		return pairResult{err: err, errSide: "B", errStage: "mul.R1"}
	}
	r2, b, err := bob.Round2(r1)
	if err != nil {
		return pairResult{err: err, errSide: "B", errStage: "mul.R1"}
	}
	if r2, err = hop(h, "mul.R2", r2); err != nil {
		return pairResult{err: err, errSide: "A", errStage: "mul.R2"}
	}
	r3, c, err := alice.Round3(r2, a)
	if err != nil {
		return pairResult{err: err, errSide: "A", errStage: "mul.R2"}
	}
	if r3, err = hop(h, "mul.R3", r3); err != nil {
		return pairResult{err: err, errSide: "B", errStage: "mul.R3"}
	}
	d, err := bob.Round4(r3)
	if err != nil {
		return pairResult{err: err, errSide: "B", errStage: "mul.R3"}
	}
	return pairResult{completed: true, corrViolation: checkProduct(k256.NewScalarField(), a, b, c, d)}
}

func runRVOLEsoft(ctxs map[sim.ID]*session.Context, seed sim.Seed, l int, w *rand.Rand, h *pairHook) pairResult {
	baseChoices := make([]byte, softspoken.Kappa/8)
	for i := range baseChoices {
		baseChoices[i] = byte(w.IntN(256))
	}
	// base OT: party 1 sender, party 2 receiver; Alice (party 2) needs receiver seeds, Bob (party 1) sender seeds
	bres, so, ro := runVSOT(ctxs, seed, softspoken.Kappa, 1, baseChoices, h, "base")
	if bres.err != nil || bres.corrViolation != "" {
		return bres
	}
	suite, err := rvsoft.NewSuite(l, k256.NewCurve(), sha256.New)
	if err != nil {
		return pairResult{err: err, errSide: "setup"}
	}
	alice, err := rvsoft.NewAlice(ctxs[2], suite, ro, sim.NewRand(seed.Sub("rand/2/mul")))
	if err != nil {
		return pairResult{err: err, errSide: "setup"}
	}
	bob, err := rvsoft.NewBob(ctxs[1], suite, so, sim.NewRand(seed.Sub("rand/1/mul")))
	if err != nil {
		return pairResult{err: err, errSide: "setup"}
	}
	a, err := drawMulInputs(k256.NewScalarField(), w, l)
	if err != nil {
		return pairResult{err: err, errSide: "setup"}
	}
	r1, b, err := bob.Round1()
	if err != nil {
		return pairResult{err: err, errSide: "A", errStage: "start"}
	}
	if r1, err = hop(h, "mul.R1", r1); err != nil {
		return pairResult{err: err, errSide: "B", errStage: "mul.R1"}
	}
	r2, c, err := alice.Round2(r1, a)
	if err != nil {
		return pairResult{err: err, errSide: "B", errStage: "mul.R1"}
	}
	if r2, err = hop(h, "mul.R2", r2); err != nil {
		return pairResult{err: err, errSide: "A", errStage: "mul.R2"}
	}
	d, err := bob.Round3(r2)
	if err != nil {
		return pairResult{err: err, errSide: "A", errStage: "mul.R2"}
	}
	return pairResult{completed: true, corrViolation: checkProduct(k256.NewScalarField(), a, b, c, d)}
}

// ---- workload ----

type pairCfg struct {
	proto   string
	xi, l   int
	pattern string
}

// checkFeeding lists, per protocol, the stages whose fields feed the
// consistency checks the property names (extension challenge response and
// the multiplier's check values); alterations there must make the other side abort.
var checkFeeding = map[string][]string{
	"softspoken":      {"ext.R1"},
	"rvole-bbot":      {"mul.R3"},
	"rvole-softspoken": {"mul.R1", "mul.R2"},
}

func runPairOnce(proto string, seed sim.Seed, h *pairHook) (res pairResult, cfg pairCfg, herr error) {
	defer func() {
		if r := recover(); r != nil {
			res = pairResult{panicVal: r}
		}
	}()
	w := seed.Sub("workload").Rand()
	ids := []sim.ID{1, 2}
	ctxs, err := lockstepSession(ids, seed, seed.Sub("order").Rand())
	if err != nil {
		return res, cfg, fmt.Errorf("session setup failed: %w", err)
	}
	cfg.proto = proto
	switch proto {
	case "ecbbot-k256", "ecbbot-p256":
		cfg.xi = []int{8, 64, 128, 256}[w.IntN(4)]
		cfg.l = []int{1, 2, 4}[w.IntN(3)]
		var ch []byte
		ch, cfg.pattern = drawChoices(w, cfg.xi)
		if proto == "ecbbot-k256" {
			res = runECBBOT(k256.NewCurve(), ctxs, seed, cfg.xi, cfg.l, ch, h)
		} else {
			res = runECBBOT(p256.NewCurve(), ctxs, seed, cfg.xi, cfg.l, ch, h)
		}
	case "vsot":
		cfg.xi = []int{8, 64, 128}[w.IntN(3)]
		cfg.l = []int{1, 2}[w.IntN(2)]
		var ch []byte
		ch, cfg.pattern = drawChoices(w, cfg.xi)
		res, _, _ = runVSOT(ctxs, seed, cfg.xi, cfg.l, ch, h, "base")
	case "softspoken":
		cfg.xi = []int{128, 256, 1024}[w.IntN(3)]
		cfg.l = []int{1, 2, 4}[w.IntN(3)]
		var ch []byte
		ch, cfg.pattern = drawChoices(w, cfg.xi)
		res = runSoftspoken(ctxs, seed, cfg.xi, cfg.l, ch, w, h)
	case "rvole-bbot":
		cfg.l = 1 + w.IntN(4)
		res = runRVOLEbbot(ctxs, seed, cfg.l, w, h)
	case "rvole-softspoken":
		cfg.l = 1 + w.IntN(4)
		res = runRVOLEsoft(ctxs, seed, cfg.l, w, h)
	default:
		return res, cfg, fmt.Errorf("unknown protocol %q", proto)
	}
	return res, cfg, nil
}

// RunPair is one C09 evaluation: an honest run (correlation oracle), and, when
// the run index selects it, one altered run (abort / safety oracle).
func RunPair(rc *harness.RunCtx, proto string) harness.Outcome {
	probes := map[string]int{}
	site := proto
	fail := func(class, f string, a ...any) harness.Outcome {
		return harness.Outcome{Violation: &harness.Violation{Class: class, Site: site, Detail: fmt.Sprintf(f, a...)}, Probes: probes, Params: rc.Params, NonTrivial: true}
	}
	// pass 1: honest, recording
	h0 := &pairHook{log: map[string][]byte{}, probes: probes}
	res, cfg, herr := runPairOnce(proto, rc.Seed, h0)
	if herr != nil {
		return harness.Outcome{HarnessErr: herr}
	}
	class := fmt.Sprintf("%s xi=%d l=%d choices=%s", proto, cfg.xi, cfg.l, cfg.pattern)
	if res.panicVal != nil {
		return fail("panic", "honest run panicked: %v", res.panicVal)
	}
	if res.err != nil {
		return fail("honest-run-error", "%s side %s after %s: %s", class, res.errSide, res.errStage, oneLineErr(res.err))
	}
	if res.corrViolation != "" {
		return fail("correlation-broken", "%s: %s", class, res.corrViolation)
	}
	probes["honest_completed"]++
	probes["choices_"+cfg.pattern]++
	out := harness.Outcome{Class: class, NonTrivial: true, Probes: probes, Trace: []string{class}, Params: rc.Params,
		Sample: map[string]any{"workload": "pair", "config": class, "stages": h0.order}}
	// pass 2: one alteration, drawn from the run seed (or given by the replay file)
	plan := tamperFromParams(rc.Params)
	if plan == nil {
		w := rc.Seed.Sub("fault").Rand()
		if w.IntN(4) == 0 {
			return out // fault-free evaluation, reported separately
		}
		plan = drawPairTamper(w, proto, h0, rc.Seed)
		if plan == nil {
			return out
		}
		out.Params = plan.params()
	}
	h1 := &pairHook{plan: plan}
	res2, _, herr := runPairOnce(proto, rc.Seed, h1)
	if herr != nil {
		return harness.Outcome{HarnessErr: herr}
	}
	if h1.applyErr != nil || !h1.fired {
		return harness.Outcome{HarnessErr: fmt.Errorf("tamper %s could not be applied: fired=%v err=%v", plan, h1.fired, h1.applyErr)}
	}
	site = fmt.Sprintf("%s|%s|%s|%s", proto, plan.CID, cbor.NormPath(plan.Path), plan.Op)
	out.Cells = []string{site}
	out.Trace = append(out.Trace, plan.String())
	if !h1.changed {
		probes["tamper_no_change"]++
		return out
	}
	probes["op_"+plan.Op]++
	if res2.panicVal != nil {
		out.Violation = &harness.Violation{Class: "panic", Site: site, Detail: fmt.Sprintf("panic after %s: %v", plan, res2.panicVal)}
		return out
	}
	feeding := false
	for _, st := range checkFeeding[proto] {
		if st == plan.CID {
			feeding = true
		}
	}
	if !feeding {
		probes["safety_only_alteration"]++
		if res2.err != nil {
			probes["safety_only_rejected"]++
		}
		return out
	}
	if h1.vacuous {
		probes["vacuous_alteration"]++
		return out
	}
	if res2.err == nil {
		out.Violation = &harness.Violation{Class: "altered-check-value-accepted", Site: site, Detail: fmt.Sprintf("%s: the other side completed although a check-feeding field was altered: %s (correlation after completion: %q)", class, plan, res2.corrViolation)}
		return out
	}
	if res2.errStage != plan.CID {
		out.Violation = &harness.Violation{Class: "abort-at-wrong-point", Site: site, Detail: fmt.Sprintf("altered %s but the error surfaced at side %s after %s: %s", plan.CID, res2.errSide, res2.errStage, oneLineErr(res2.err))}
		return out
	}
	probes["alteration_rejected_by_other_side"]++
	return out
}

// drawPairTamper picks a stage, a leaf and an operator from the recorded honest messages.
func drawPairTamper(w *rand.Rand, proto string, h0 *pairHook, seed sim.Seed) *tamper {
	stages := append([]string(nil), h0.order...)
	sort.Strings(stages)
	var stage string
	if cf := checkFeeding[proto]; len(cf) > 0 && w.IntN(4) != 0 {
		stage = cf[w.IntN(len(cf))]
	} else {
		stage = stages[w.IntN(len(stages))]
	}
	body := h0.log[stage]
	tr, err := cbor.ParseDeep(body)
	if err != nil {
		return nil
	}
	leaves := tr.Leaves()
	if len(leaves) == 0 {
		return nil
	}
	// Stratify by field: first one field of the message (array indices
	// wildcarded), then one leaf of it, so that a single short field (a check
	// value next to a large matrix) is altered as often as the large one.
	groups := map[string][]cbor.Leaf{}
	var gkeys []string
	for _, lf := range leaves {
		g := cbor.NormPath(lf.Path)
		if _, ok := groups[g]; !ok {
			gkeys = append(gkeys, g)
		}
		groups[g] = append(groups[g], lf)
	}
	sort.Strings(gkeys)
	grp := groups[gkeys[w.IntN(len(gkeys))]]
	l := grp[w.IntN(len(grp))]
	t := &tamper{CID: stage, Path: l.Path}
	n := l.Node
	switch w.IntN(6) {
	case 0, 1, 5:
		t.Op = "flip"
		bits := 8
		if n.Major == 2 || n.Major == 3 {
			bits = 8 * len(n.Bytes)
		}
		if bits == 0 {
			return nil
		}
		t.Arg = strconv.Itoa(w.IntN(bits))
	case 2:
		// another leaf of the same kind in the same message
		var same []cbor.Leaf
		for _, o := range leaves {
			if o.Path != l.Path && o.Node.Major == n.Major && len(o.Node.Bytes) == len(n.Bytes) {
				same = append(same, o)
			}
		}
		if len(same) == 0 {
			return nil
		}
		t.Op, t.Arg = "swapleaf", same[w.IntN(len(same))].Path
	case 3:
		// the value at the same position of an independent run (another valid value of the same kind)
		hb := &pairHook{log: map[string][]byte{}}
		if _, _, err := runPairOnce(proto, seed.Sub("other-run"), hb); err != nil {
			return nil
		}
		ob, ok := hb.log[stage]
		if !ok {
			return nil
		}
		ot, err := cbor.ParseDeep(ob)
		if err != nil {
			return nil
		}
		o, ok := ot.Find(l.Path)
		if !ok || o.Node.Major != n.Major || (n.Major != 2 && n.Major != 3) {
			return nil
		}
		t.Op, t.Arg = "set", hex.EncodeToString(o.Node.Bytes)
	default:
		if (n.Major == 2 || n.Major == 3) && len(n.Bytes) > 0 && n.Bytes[len(n.Bytes)-1] != 0 {
			t.Op = "trunc"
		} else {
			t.Op = "inc"
			if n.Major > 1 {
				return nil
			}
		}
	}
	return t
}

func pairWorkload(proto string, quick, thorough int) harness.Workload {
	return harness.Workload{Name: "pair-" + proto, Quick: quick, Thorough: thorough, Run: func(rc *harness.RunCtx) harness.Outcome { return RunPair(rc, proto) }}
}

// C09Workloads lists the two-party fault-injection workloads that decide C09.
func C09Workloads() []harness.Workload {
	return []harness.Workload{
		pairWorkload("ecbbot-k256", 24, 2000),
		pairWorkload("ecbbot-p256", 12, 1000),
		pairWorkload("vsot", 24, 2000),
		pairWorkload("softspoken", 40, 4000),
		pairWorkload("rvole-bbot", 80, 4000),
		pairWorkload("rvole-softspoken", 40, 3000),
	}
}

var _ = io.EOF
var _ = strings.Contains
