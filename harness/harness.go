// Package harness is the worker side of every check: it turns (VERIF_SEED,
// worker index) into a sequence of simulated runs, confirms, minimises and
// writes replay files for violations, and emits a partial result that the
// driver (cmd/vcheck) merges into /verif/evidence/<id>.json.
package harness

import (
	"crypto/sha256"
	"encoding/binary"
	"encoding/json"
	"fmt"
	"os"
	"path/filepath"
	"runtime"
	"sort"
	"strconv"
	"strings"
	"sync"
	"testing"
	"testing/cryptotest"
	"time"

	"verif/sim"
)

// RunCtx is what a workload gets for one simulated run.
type RunCtx struct {
	T        *testing.T
	Property string
	Workload string
	Tier     string
	Index    uint64   // global run index
	Seed     sim.Seed // run seed = root.Sub(property).SubN(workload, index)
	// Replay, when non-nil, is the decision trace to follow.
	Replay []string
	// Params carries workload-specific overrides used by replay/minimisation
	// (e.g. the fault cell of C04, a reduced configuration).
	Params map[string]string
	// Aux is scratch space of one run (e.g. the random sources handed out, for counting).
	Aux   map[string]any
	AuxMu *sync.Mutex
}

// Violation describes a property violation found in one run.
type Violation struct {
	Class  string `json:"class"`  // stable identifier of the failure kind (used to keep "the same violation" during minimisation)
	Site   string `json:"site"`   // protocol / call site / cell the violation is attached to (matched against known findings)
	Detail string `json:"detail"` // human-readable
}

// Outcome is what a workload returns for one run.
type Outcome struct {
	Violation  *Violation
	Class      string            // configuration class (for distinctness)
	NonTrivial bool              // by the workload's stated rule
	Trace      []string          // decision trace actually followed
	Params     map[string]string // parameters needed to re-run exactly (besides seed/index)
	Stats      sim.Stats
	Probes     map[string]int // reach probes
	Sample     any            // a written-out case for the evidence file
	Skipped    bool           // configuration legitimately refused by the library (trivial pass)
	HarnessErr error          // trouble in the harness itself: exit 2, never a violation
	Cells      []string       // fault_enumeration: cells visited by this run
	Digest     string         // digest of the run's outputs (determinism self-test)
}

// Workload is one family of simulated runs of a property.
type Workload struct {
	Name string
	// Weight is the share of runs in a tier (quick, thorough).
	Quick, Thorough int
	Run             func(rc *RunCtx) Outcome
	// EnumerateT, when set, replaces index-based generation: the workload lists
	// its cells for the tier (fault enumeration) and Run receives them as Params.
	EnumerateT func(t *testing.T, tier string, verifSeed int64, seed sim.Seed) ([]map[string]string, error)
}

// Replay is the file format of /verif/replays/*.json.
type Replay struct {
	Property string            `json:"property"`
	Workload string            `json:"workload"`
	Seed     int64             `json:"verif_seed"`
	Index    uint64            `json:"run_index"`
	Tier     string            `json:"tier"`
	Params   map[string]string `json:"params,omitempty"`
	Trace    []string          `json:"decision_trace"`
	Class    string            `json:"violation_class"`
	Site     string            `json:"violation_site"`
	Detail   string            `json:"detail"`
	Original int               `json:"original_trace_len"`
	Note     string            `json:"note,omitempty"`
}

// KnownFinding is an entry of /verif/known_findings.json.
type KnownFinding struct {
	Property string `json:"property"`
	Class    string `json:"class"`
	Site     string `json:"site"`
	What     string `json:"what"`
	Status   string `json:"status"` // "open" or "fixed: <commit>"
}

// WorkerResult is the partial result of one worker process.
type WorkerResult struct {
	Property    string                    `json:"property"`
	Worker      int                       `json:"worker"`
	Evaluations int                       `json:"evaluations"`
	Skipped     int                       `json:"skipped"`
	Distinct    []string                  `json:"distinct"` // hashes of distinct non-trivial cases
	PerWorkload map[string]int            `json:"per_workload"`
	Fired       map[string]int            `json:"fired"`
	Probes      map[string]int            `json:"probes"`
	Steps       int64                     `json:"steps"`
	Delivered   int64                     `json:"delivered"`
	NonFIFO     int64                     `json:"non_fifo"`
	SimTimeS    float64                   `json:"sim_time_s"`
	Samples     []any                     `json:"samples"`
	Violations  []Replay                  `json:"violations"`
	ReplayFiles []string                  `json:"replay_files"`
	Known       []string                  `json:"known"`
	Cells       map[string]int            `json:"cells,omitempty"`
	WallS       float64                   `json:"wall_s"`
	HarnessErr  string                    `json:"harness_err,omitempty"`
	Extra       map[string]map[string]int `json:"extra,omitempty"`
	RunDigests  []string                  `json:"run_digests,omitempty"` // "<workload>[<index>]=<hash of trace and outputs>"
}

func envInt(name string, def int64) int64 {
	if v := os.Getenv(name); v != "" {
		if n, err := strconv.ParseInt(v, 10, 64); err == nil {
			return n
		}
	}
	return def
}

// VerifDir is the root of the verification tree (replays, evidence, known findings).
func VerifDir() string {
	if d := os.Getenv("VERIF_DIR"); d != "" {
		return d
	}
	return "/verif"
}

// Main is the body of every TestCxx function.
func Main(t *testing.T, property string, workloads []Workload) {
	if os.Getenv("VERIF_PROP") != property {
		t.Skipf("VERIF_PROP != %s (run through /verif/check)", property)
	}
	seed := envInt("VERIF_SEED", 1)
	tier := os.Getenv("VERIF_TIER")
	if tier == "" {
		tier = "quick"
	}
	worker := int(envInt("VERIF_WORKER", 0))
	workers := int(envInt("VERIF_WORKERS", 1))
	outPath := os.Getenv("VERIF_OUT")
	scale := float64(envInt("VERIF_SCALE_PCT", 100)) / 100
	var deadline time.Time
	// Only the thorough tier (open-ended sampling) is cut off by a time budget. The quick
	// tier always runs its whole fixed batch: a loaded machine must not silently shrink
	// what a quick run covers (the driver's watchdog still bounds it; that is exit 2).
	if b := envInt("VERIF_BUDGET_S", 0); b > 0 && os.Getenv("VERIF_TIER") == "thorough" {
		deadline = time.Now().Add(time.Duration(b) * time.Second)
	}
	start := time.Now()
	fmt.Printf("VERIF_SEED=%d property=%s tier=%s worker=%d/%d\n", seed, property, tier, worker, workers)

	root := sim.RootSeed(seed).Sub(property)
	known := loadKnown(property)

	if rp := os.Getenv("VERIF_REPLAY"); rp != "" {
		replayFile(t, property, workloads, rp)
		return
	}

	res := &WorkerResult{Property: property, Worker: worker, PerWorkload: map[string]int{}, Fired: map[string]int{}, Probes: map[string]int{}, Cells: map[string]int{}}
	distinct := map[string]bool{}
	only := os.Getenv("VERIF_WORKLOAD")

	type job struct {
		w      *Workload
		index  uint64
		params map[string]string
		pos    float64
	}
	var jobs []job
	var gi uint64
	for wi := range workloads {
		w := &workloads[wi]
		if only != "" && w.Name != only {
			continue
		}
		// workloads named *-fine need the binary built with the instrumented router
		if strings.HasSuffix(w.Name, "-fine") != (os.Getenv("VERIF_FINE") == "1") {
			continue
		}
		if w.EnumerateT != nil {
			cells, err := w.EnumerateT(t, tier, seed, root.Sub(w.Name))
			if err != nil {
				fmt.Printf("HARNESS-ERROR enumerating %s: %v\n", w.Name, err)
				res.HarnessErr = fmt.Sprintf("enumerating %s: %v", w.Name, err)
				continue
			}
			for ci, cell := range cells {
				// development aid: restrict an enumeration to the cells whose label contains a substring
				if m := os.Getenv("VERIF_CELL_MATCH"); m != "" && !strings.Contains(cell["cell"], m) {
					gi++
					continue
				}
				jobs = append(jobs, job{w, gi, cell, (float64(ci) + 0.5) / float64(len(cells))})
				gi++
			}
			continue
		}
		n := w.Quick
		if tier == "thorough" {
			n = w.Thorough
		}
		n = int(float64(n)*scale + 0.5)
		for i := 0; i < n; i++ {
			jobs = append(jobs, job{w, uint64(i), nil, (float64(i) + 0.5) / float64(n)})
		}
	}
	// interleave workloads so that a budget cut-off leaves every workload sampled
	sort.SliceStable(jobs, func(a, b int) bool { return jobs[a].pos < jobs[b].pos })
	if res.HarnessErr != "" {
		jobs = nil
	}
	mine := 0
	for ji, j := range jobs {
		if ji%workers != worker {
			continue
		}
		if !deadline.IsZero() && time.Now().After(deadline) && mine > 0 {
			res.Probes["budget_cutoff"]++
			break
		}
		mine++
		rc := &RunCtx{T: t, Property: property, Workload: j.w.Name, Tier: tier, Index: j.index, Seed: root.SubN(j.w.Name, j.index), Params: j.params}
		writeCurrent(outPath, seed, rc)
		out := safeRun(j.w, rc)
		if out.HarnessErr != nil {
			res.HarnessErr = fmt.Sprintf("%s[%d]: %v", j.w.Name, j.index, out.HarnessErr)
			fmt.Printf("HARNESS-ERROR %s\n", res.HarnessErr)
			break
		}
		res.Evaluations++
		res.PerWorkload[j.w.Name]++
		accumulate(res, &out)
		if out.Skipped {
			res.Skipped++
		}
		for _, c := range out.Cells {
			res.Cells[c]++
		}
		if out.NonTrivial && !out.Skipped {
			h := sha256.New()
			h.Write([]byte(j.w.Name + "|" + out.Class + "|"))
			for _, d := range out.Trace {
				h.Write([]byte(d))
				h.Write([]byte{0})
			}
			for _, k := range sortedKeys(out.Params) {
				h.Write([]byte(k + "=" + out.Params[k] + ";"))
			}
			distinct[fmt.Sprintf("%x", h.Sum(nil)[:8])] = true
		}
		{
			h := sha256.New()
			for _, d := range out.Trace {
				h.Write([]byte(d))
				h.Write([]byte{0})
			}
			h.Write([]byte(out.Digest))
			res.RunDigests = append(res.RunDigests, fmt.Sprintf("%s[%d]=%x", j.w.Name, j.index, h.Sum(nil)[:6]))
			if os.Getenv("VERIF_DIGEST_DEBUG") != "" {
				th := sha256.New()
				for _, d := range out.Trace {
					th.Write([]byte(d))
				}
				fmt.Printf("DIGEST %s[%d] tracelen=%d tracehash=%x digest=%s\n", j.w.Name, j.index, len(out.Trace), th.Sum(nil)[:4], out.Digest)
			}
		}
		if out.Sample != nil && len(res.Samples) < 3 {
			res.Samples = append(res.Samples, out.Sample)
		}
		if out.Violation != nil {
			rep := handleViolation(t, seed, j.w, rc, out, known, res)
			if rep != nil {
				res.Violations = append(res.Violations, *rep)
				if len(res.Violations) >= 3 {
					break
				}
			}
			if res.HarnessErr != "" {
				break
			}
		}
	}
	for h := range distinct {
		res.Distinct = append(res.Distinct, h)
	}
	sort.Strings(res.Distinct)
	res.WallS = time.Since(start).Seconds()
	if outPath != "" {
		b, _ := json.Marshal(res)
		if err := os.WriteFile(outPath, b, 0o644); err != nil {
			t.Fatalf("write result: %v", err)
		}
		os.Remove(outPath + ".current")
	}
	if len(res.Violations) > 0 {
		t.Fail()
	}
}

func sortedKeys(m map[string]string) []string {
	ks := make([]string, 0, len(m))
	for k := range m {
		ks = append(ks, k)
	}
	sort.Strings(ks)
	return ks
}

func accumulate(res *WorkerResult, out *Outcome) {
	for k, v := range out.Stats.Fired {
		res.Fired[k] += v
	}
	for k, v := range out.Probes {
		res.Probes[k] += v
	}
	res.Steps += int64(out.Stats.Steps)
	res.Delivered += int64(out.Stats.Delivered)
	res.NonFIFO += int64(out.Stats.NonFIFO)
	res.SimTimeS += out.Stats.SimTime.Seconds()
	if out.Stats.CapHit {
		res.Probes["step_cap_hit"]++
	}
}

func safeRun(w *Workload, rc *RunCtx) (out Outcome) {
	// every run starts from a fixed process-global crypto/rand state, so that a
	// hidden use of the global source cannot make runs irreproducible
	g := rc.Seed.Sub("global-rand").U64()
	if v := rc.Params["global_rand"]; v != "" {
		g = HashU64("global", v)
	}
	cryptotest.SetGlobalRandom(rc.T, g)
	defer func() {
		if r := recover(); r != nil {
			if os.Getenv("VERIF_DEBUG") != "" {
				buf := make([]byte, 1<<20)
				n := runtime.Stack(buf, true)
				fmt.Printf("PANIC %v\n%s\n", r, buf[:n])
			}
			out = Outcome{HarnessErr: fmt.Errorf("panic in harness/bubble: %v", r)}
		}
	}()
	return w.Run(rc)
}

func writeCurrent(outPath string, seed int64, rc *RunCtx) {
	if outPath == "" {
		return
	}
	b, _ := json.Marshal(Replay{Property: rc.Property, Workload: rc.Workload, Seed: seed, Index: rc.Index, Tier: rc.Tier, Params: rc.Params})
	_ = os.WriteFile(outPath+".current", b, 0o644)
}

func loadKnown(property string) []KnownFinding {
	b, err := os.ReadFile(filepath.Join(VerifDir(), "known_findings.json"))
	if err != nil {
		return nil
	}
	var all []KnownFinding
	if err := json.Unmarshal(b, &all); err != nil {
		fmt.Printf("HARNESS-ERROR known_findings.json: %v\n", err)
		os.Exit(2)
	}
	var out []KnownFinding
	for _, k := range all {
		if k.Property == property && k.Status == "open" {
			out = append(out, k)
		}
	}
	return out
}

func matchKnown(known []KnownFinding, v *Violation) *KnownFinding {
	for i := range known {
		if known[i].Class == v.Class && known[i].Site == v.Site {
			return &known[i]
		}
	}
	return nil
}

// handleViolation confirms (replays), minimises and records a violation.
func handleViolation(t *testing.T, seed int64, w *Workload, rc *RunCtx, out Outcome, known []KnownFinding, res *WorkerResult) *Replay {
	v := out.Violation
	if k := matchKnown(known, v); k != nil {
		line := fmt.Sprintf("KNOWN-FINDING: property=%s %s [%s @ %s]", rc.Property, k.What, k.Class, k.Site)
		res.Known = append(res.Known, line)
		fmt.Println(line)
		return nil
	}
	fmt.Printf("violation candidate %s[%d] class=%s site=%s config={%s}: %s\n", w.Name, rc.Index, v.Class, v.Site, out.Class, v.Detail)
	params := out.Params
	if params == nil {
		params = rc.Params
	}
	// 1. confirm: replaying the recorded trace must fail in the same class
	same := func(o Outcome) bool {
		return o.HarnessErr == nil && o.Violation != nil && o.Violation.Class == v.Class && o.Violation.Site == v.Site
	}
	rerun := func(trace []string, p map[string]string) Outcome {
		r2 := *rc
		r2.Replay = trace
		if r2.Replay == nil {
			r2.Replay = []string{}
		}
		r2.Params = p
		return safeRun(w, &r2)
	}
	conf := rerun(out.Trace, params)
	for attempt := 0; attempt < 2 && !same(conf); attempt++ {
		conf = rerun(out.Trace, params) // a replay that does not reproduce is retried before it is declared non-reproducing
		res.Probes["confirm_retries"]++
	}
	if !same(conf) {
		got := "no violation"
		if conf.Violation != nil {
			got = conf.Violation.Class + "@" + conf.Violation.Site + ": " + conf.Violation.Detail
		}
		if conf.HarnessErr != nil {
			got = "harness error: " + conf.HarnessErr.Error()
		}
		res.HarnessErr = fmt.Sprintf("non-reproducing failure in %s[%d]: first %s@%s (%s), replay gave %s", w.Name, rc.Index, v.Class, v.Site, v.Detail, got)
		fmt.Printf("HARNESS-ERROR %s\n", res.HarnessErr)
		return nil
	}
	// 2. minimise: drop fault decisions (one at a time, from the end), then truncate the tail
	trace := append([]string(nil), conf.Trace...)
	orig := len(trace)
	budget := time.Now().Add(time.Duration(envInt("VERIF_MINIMISE_S", 60)) * time.Second)
	last := conf
	try := func(cand []string) bool {
		if time.Now().After(budget) {
			return false
		}
		o := rerun(cand, params)
		if same(o) {
			last = o
			return true
		}
		return false
	}
	// truncate tail by halves
	for n := len(trace) / 2; n >= 1; n /= 2 {
		for len(trace) >= n && try(trace[:len(trace)-n]) {
			trace = trace[:len(trace)-n]
		}
	}
	// drop non-delivery decisions
	for i := len(trace) - 1; i >= 0; i-- {
		if i < len(trace) && !strings.HasPrefix(trace[i], "deliver ") {
			cand := append(append([]string(nil), trace[:i]...), trace[i+1:]...)
			if try(cand) {
				trace = cand
			}
		}
	}
	// drop single deliveries (lets the canonical continuation deliver them later)
	for i := len(trace) - 1; i >= 0 && len(trace) <= 400; i-- {
		if i < len(trace) {
			cand := append(append([]string(nil), trace[:i]...), trace[i+1:]...)
			if try(cand) {
				trace = cand
			}
		}
	}
	v = last.Violation
	rep := &Replay{Property: rc.Property, Workload: w.Name, Seed: seed, Index: rc.Index, Tier: rc.Tier, Params: params, Trace: trace, Class: v.Class, Site: v.Site, Detail: v.Detail, Original: orig}
	dir := filepath.Join(VerifDir(), "replays")
	_ = os.MkdirAll(dir, 0o755)
	path := filepath.Join(dir, fmt.Sprintf("%s-%s-s%d-r%d.json", rc.Property, w.Name, seed, rc.Index))
	b, _ := json.MarshalIndent(rep, "", " ")
	if err := os.WriteFile(path, b, 0o644); err != nil {
		res.HarnessErr = "cannot write replay: " + err.Error()
		return nil
	}
	res.ReplayFiles = append(res.ReplayFiles, path)
	fmt.Printf("VIOLATION property=%s replay=%s\n", rc.Property, path)
	fmt.Printf("  class=%s site=%s detail=%s (trace %d -> %d decisions)\n", v.Class, v.Site, v.Detail, orig, len(trace))
	return rep
}

func replayFile(t *testing.T, property string, workloads []Workload, path string) {
	b, err := os.ReadFile(path)
	if err != nil {
		fmt.Printf("HARNESS-ERROR cannot read replay: %v\n", err)
		os.Exit(2)
	}
	var rep Replay
	if err := json.Unmarshal(b, &rep); err != nil {
		fmt.Printf("HARNESS-ERROR bad replay file: %v\n", err)
		os.Exit(2)
	}
	if rep.Property != property {
		t.Skip("other property")
	}
	for wi := range workloads {
		w := &workloads[wi]
		if w.Name != rep.Workload {
			continue
		}
		root := sim.RootSeed(rep.Seed).Sub(property)
		tr := rep.Trace
		if tr == nil {
			tr = []string{}
		}
		rc := &RunCtx{T: t, Property: property, Workload: w.Name, Tier: rep.Tier, Index: rep.Index, Seed: root.SubN(w.Name, rep.Index), Replay: tr, Params: rep.Params}
		out := safeRun(w, rc)
		if out.HarnessErr != nil {
			fmt.Printf("HARNESS-ERROR %v\n", out.HarnessErr)
			os.Exit(2)
		}
		if out.Violation != nil {
			fmt.Printf("VIOLATION property=%s replay=%s\n  class=%s site=%s config={%s} detail=%s\n", property, path, out.Violation.Class, out.Violation.Site, out.Class, out.Violation.Detail)
			t.Fail()
			return
		}
		fmt.Printf("replay %s: no violation (expected class %s)\n", path, rep.Class)
		return
	}
	fmt.Printf("HARNESS-ERROR unknown workload %q\n", rep.Workload)
	os.Exit(2)
}

// HashU64 is a helper for workloads.
func HashU64(parts ...string) uint64 {
	h := sha256.New()
	for _, p := range parts {
		h.Write([]byte(p))
		h.Write([]byte{0})
	}
	return binary.LittleEndian.Uint64(h.Sum(nil)[:8])
}
