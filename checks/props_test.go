package checks

import (
	"testing"

	"verif/harness"
)

func TestC11(t *testing.T) { harness.Main(t, "C11", C11Workloads()) }

func TestC10(t *testing.T) { harness.Main(t, "C10", C10Workloads()) }

func TestC03(t *testing.T) { harness.Main(t, "C03", C03Workloads()) }

func TestC01(t *testing.T) { harness.Main(t, "C01", C01Workloads()) }

func TestC04(t *testing.T) { harness.Main(t, "C04", C04Workloads()) }

func TestC09(t *testing.T) { harness.Main(t, "C09", C09Workloads()) }

func TestC06(t *testing.T) { harness.Main(t, "C06", C06Workloads()) }

func TestC07(t *testing.T) { harness.Main(t, "C07", C07Workloads()) }
