// inst rewrites /repo/pkg/network/router.go into an instrumented copy for the
// fine-step router simulation and writes a `go build -overlay` file. Nothing
// under /repo is modified. The rewriting is pattern based, so it also applies
// to a changed router.go:
//
//   - X.Lock() / X.Unlock() (also deferred)  ->  simLock(&X, site) / simUnlock(&X)
//   - simYield(site) before every statement of every function body and
//     function literal (so also right after every select / channel operation,
//     as the first statement of a started goroutine, and before statements
//     that a change may have moved out of a critical section).
//
// The hooks are added to the package by zz_simhooks.go; with no scheduler
// installed they fall through to the real mutex and do nothing else.
package main

import (
	"bytes"
	"encoding/json"
	"flag"
	"fmt"
	"go/ast"
	"go/format"
	"go/parser"
	"go/token"
	"os"
	"path/filepath"
)

const hooks = `package network

import "sync"

// Fine-step simulation hooks (present only in the overlay build).
var (
	SimYieldHook  func(site string)
	SimLockHook   func(mu *sync.Mutex, site string)
	SimUnlockHook func(mu *sync.Mutex)
)

func simYield(site string) {
	if h := SimYieldHook; h != nil {
		h(site)
	}
}

func simLock(mu *sync.Mutex, site string) {
	if h := SimLockHook; h != nil {
		h(mu, site)
		return
	}
	mu.Lock()
}

func simUnlock(mu *sync.Mutex) {
	if h := SimUnlockHook; h != nil {
		h(mu)
		return
	}
	mu.Unlock()
}
`

func main() {
	repo := flag.String("repo", "/repo", "repository root")
	out := flag.String("out", "", "output directory")
	flag.Parse()
	if *out == "" {
		fmt.Fprintln(os.Stderr, "need -out")
		os.Exit(2)
	}
	src := filepath.Join(*repo, "pkg/network/router.go")
	fset := token.NewFileSet()
	f, err := parser.ParseFile(fset, src, nil, parser.ParseComments)
	if err != nil {
		fmt.Fprintln(os.Stderr, err)
		os.Exit(2)
	}
	stats := map[string]int{}
	site := func(p token.Pos, kind string) *ast.BasicLit {
		pos := fset.Position(p)
		return &ast.BasicLit{Kind: token.STRING, Value: fmt.Sprintf("%q", fmt.Sprintf("router.go:%d:%s", pos.Line, kind))}
	}
	// lock calls
	rewriteCall := func(call *ast.CallExpr) {
		sel, ok := call.Fun.(*ast.SelectorExpr)
		if !ok || len(call.Args) != 0 {
			return
		}
		switch sel.Sel.Name {
		case "Lock":
			st := site(call.Pos(), "lock")
			call.Fun = ast.NewIdent("simLock")
			call.Args = []ast.Expr{&ast.UnaryExpr{Op: token.AND, X: sel.X}, st}
			stats["lock"]++
		case "Unlock":
			call.Fun = ast.NewIdent("simUnlock")
			call.Args = []ast.Expr{&ast.UnaryExpr{Op: token.AND, X: sel.X}}
			stats["unlock"]++
		}
	}
	kindOf := func(s ast.Stmt) string {
		switch s.(type) {
		case *ast.SelectStmt:
			return "select"
		case *ast.SendStmt:
			return "send"
		case *ast.GoStmt:
			return "go"
		case *ast.ReturnStmt:
			return "return"
		case *ast.ForStmt, *ast.RangeStmt:
			return "loop"
		case *ast.IfStmt:
			return "if"
		}
		return "stmt"
	}
	var instrList func(list []ast.Stmt) []ast.Stmt
	instrList = func(list []ast.Stmt) []ast.Stmt {
		var outl []ast.Stmt
		for _, s := range list {
			// no yield in front of a lock call: simLock is itself a scheduling point
			isLock := false
			if es, ok := s.(*ast.ExprStmt); ok {
				if c, ok := es.X.(*ast.CallExpr); ok {
					if sel, ok := c.Fun.(*ast.SelectorExpr); ok && sel.Sel.Name == "Lock" && len(c.Args) == 0 {
						isLock = true
					}
				}
			}
			if !isLock {
				outl = append(outl, &ast.ExprStmt{X: &ast.CallExpr{Fun: ast.NewIdent("simYield"), Args: []ast.Expr{site(s.Pos(), kindOf(s))}}})
				stats["yield"]++
			}
			outl = append(outl, s)
		}
		return outl
	}
	// Only the shared-state core is instrumented: methods of routerCore and mailbox.
	// Router.SendTo and friends own no shared state, and SendTo ranges over a Go map:
	// a scheduling point inside that loop would make the set of in-flight messages at
	// a decision depend on map iteration order, i.e. not replayable.
	core := map[*ast.BlockStmt]bool{}
	for _, d := range f.Decls {
		fd, ok := d.(*ast.FuncDecl)
		if !ok || fd.Recv == nil || len(fd.Recv.List) == 0 || fd.Body == nil {
			continue
		}
		t := fd.Recv.List[0].Type
		if st, ok := t.(*ast.StarExpr); ok {
			t = st.X
		}
		if id, ok := t.(*ast.Ident); ok && (id.Name == "routerCore" || id.Name == "mailbox") {
			core[fd.Body] = true
		}
	}
	inCore := map[ast.Node]bool{}
	for b := range core {
		ast.Inspect(b, func(n ast.Node) bool {
			if n != nil {
				inCore[n] = true
			}
			return true
		})
	}
	skip := map[*ast.BlockStmt]bool{} // bodies of select/switch hold clauses, not statements
	ast.Inspect(f, func(n ast.Node) bool {
		switch x := n.(type) {
		case *ast.SelectStmt:
			skip[x.Body] = true
		case *ast.SwitchStmt:
			skip[x.Body] = true
		case *ast.TypeSwitchStmt:
			skip[x.Body] = true
		}
		return true
	})
	ast.Inspect(f, func(n ast.Node) bool {
		switch x := n.(type) {
		case *ast.BlockStmt:
			if skip[x] || !inCore[x] {
				return true
			}
			x.List = instrList(x.List)
		case *ast.CaseClause:
			if inCore[x] {
				x.Body = instrList(x.Body)
			}
		case *ast.CommClause:
			if inCore[x] {
				x.Body = instrList(x.Body)
			}
		}
		return true
	})
	ast.Inspect(f, func(n ast.Node) bool {
		if c, ok := n.(*ast.CallExpr); ok && inCore[c] {
			rewriteCall(c)
		}
		return true
	})
	var buf bytes.Buffer
	if err := format.Node(&buf, fset, f); err != nil {
		fmt.Fprintln(os.Stderr, err)
		os.Exit(2)
	}
	_ = os.MkdirAll(*out, 0o755)
	rp := filepath.Join(*out, "router.go")
	hp := filepath.Join(*out, "zz_simhooks.go")
	if err := os.WriteFile(rp, buf.Bytes(), 0o644); err != nil {
		fmt.Fprintln(os.Stderr, err)
		os.Exit(2)
	}
	_ = os.WriteFile(hp, []byte(hooks), 0o644)
	ov := map[string]map[string]string{"Replace": {src: rp, filepath.Join(*repo, "pkg/network/zz_simhooks.go"): hp}}
	b, _ := json.MarshalIndent(ov, "", " ")
	_ = os.WriteFile(filepath.Join(*out, "overlay.json"), b, 0o644)
	fmt.Printf("instrumented %s: %d yields, %d lock, %d unlock sites\n", src, stats["yield"], stats["lock"], stats["unlock"])
	if stats["lock"] == 0 {
		fmt.Println("WARNING: no Lock() call found - the router no longer takes a mutex; every statement is a pre-emption point")
	}
}
