package checks

import (
	"context"
	"os"
	"crypto/sha256"
	"encoding/hex"
	"fmt"
	"sort"
	"strings"
	"sync"
	"testing"
	"testing/synctest"

	"github.com/bronlabs/bron-crypto/pkg/base"
	"github.com/bronlabs/bron-crypto/pkg/base/algebra"
	"github.com/bronlabs/bron-crypto/pkg/base/serde"
	"github.com/bronlabs/bron-crypto/pkg/mpc"
	"github.com/bronlabs/bron-crypto/pkg/mpc/dkg/canetti"
	"github.com/bronlabs/bron-crypto/pkg/mpc/dkg/gennaro"
	"github.com/bronlabs/bron-crypto/pkg/mpc/dkg/trusteddealer"
	"github.com/bronlabs/bron-crypto/pkg/mpc/signatures/ecdsa/dkls23"
	"github.com/bronlabs/bron-crypto/pkg/mpc/signatures/ecdsa/dkls23/signing_bbot"
	"github.com/bronlabs/bron-crypto/pkg/mpc/signatures/ecdsa/dkls23/signing_softspoken"
	"github.com/bronlabs/bron-crypto/pkg/mpc/signatures/schnorr/lindell22"
	l22signing "github.com/bronlabs/bron-crypto/pkg/mpc/signatures/schnorr/lindell22/signing"
	"github.com/bronlabs/bron-crypto/pkg/mpc/session"
	"github.com/bronlabs/bron-crypto/pkg/network"
	"github.com/bronlabs/bron-crypto/pkg/proofs/sigma/compiler"
	"github.com/bronlabs/bron-crypto/pkg/proofs/sigma/compiler/fiatshamir"

	"verif/cbor"
	"verif/harness"
	"verif/sim"
)

// c04IDs: three parties with sparse, unsorted-looking ids.
var c04IDs = []sim.ID{7, 12, 300}

// partyEnd is how a party's session-A task ended.
type partyEnd struct {
	done    bool
	err     error
	panic   any
	stack   string
	out     any
	blocked bool
}

type c04Result struct {
	harnessErr error
	ends       map[sim.ID]partyEnd
	safety     *harness.Violation // bad output accepted by an honest party / aggregator
	stats      sim.Stats
	trace      []string
	probes     map[string]int
	digest     map[sim.ID]string // digest of every party's session-A output (compared with the unaltered run)
	joint      string            // the joint value of session A that is meant to be random (sid / public key / signature nonce)
	jointBy    map[sim.ID]string // per party: a further value derived from the session that must depend on that party's stream (hex)
	log        []wireMsg
	sendOrder  []wireMsg
}

// c04Scenario is one protocol exercised by the wire adversary.
type c04Scenario struct {
	name      string
	only      []string // stripped-cid prefixes of the protocol under test
	maxLeaves int
	heavy     bool
	// run executes sessions A (attacked) and B (parallel, untouched) with adv installed.
	run func(rc *harness.RunCtx, adv *adversary) c04Result
	// classify returns "bound", "structural" or "free" for a cell label, and a
	// justification for "free".
	classify func(label string) (class, why string)
	// canon maps a stripped correlation id to decode-then-re-encode with the
	// library's own codec for that message type. It is used only to recognise
	// vacuous alterations (the altered bytes decode to the very same message).
	canon map[string]func([]byte) ([]byte, error)
	// skipCorrupt: party positions that are not enumerated as the deviating party, with the reason.
	skipCorrupt map[sim.ID]string
	// costlyRun: one run costs tens of seconds; the quick tier then does without the
	// alternative inventories (own-other-coins cells are thorough-tier only).
	costlyRun bool
	// c07Pos: party positions (index into the sorted party list) whose random stream
	// C07 varies; nil = 0,1,2. Positions that contribute no randomness by design
	// (a next-only holder in a redistribution) are left out.
	c07Pos []string
	// jointUniform: the joint value is a uniformly random byte string (a sample, a
	// session identifier): C07 then demands that every 8-byte window of it changes
	// when one party's stream changes.
	jointUniform bool
}

func canonOf[T any]() func([]byte) ([]byte, error) {
	return func(b []byte) ([]byte, error) {
		v, err := serde.UnmarshalCBOR[T](b)
		if err != nil {
			return nil, err
		}
		return serde.MarshalCBOR(v)
	}
}

func collectEnds(pr *protoRun, ids []sim.ID, prefix string) map[sim.ID]partyEnd {
	ends := map[sim.ID]partyEnd{}
	for _, id := range ids {
		t := pr.tasks[fmt.Sprintf("%s@%d", prefix, id)]
		if t == nil {
			continue
		}
		e := partyEnd{done: t.Done()}
		if !e.done {
			e.blocked = true
		} else {
			e.out, e.err = t.Result()
			e.panic, e.stack = t.Panic()
		}
		ends[id] = e
	}
	return ends
}

func newC04Run(rc *harness.RunCtx, adv *adversary) *protoRun {
	pr := newProtoRun(rc, c04IDs, false)
	if rc.Params["sched"] != "random" {
		pr.cl.Policy = sim.PolFIFO
	}
	pr.cl.Net.OnSend = adv.onSend
	pr.cl.MaxSteps = 100000
	return pr
}

// ---- scenario: session setup ----

func scenarioSession() *c04Scenario {
	s := &c04Scenario{name: "session", only: []string{"sess/"}, jointUniform: true}
	s.canon = map[string]func([]byte) ([]byte, error){
		"sess/SessionSetupR1BROADCAST:": canonOf[*session.Round1Broadcast](),
		"sess/SessionSetupR2BROADCAST:": canonOf[*session.Round2Broadcast](),
		"sess/SessionSetupR2UNICAST:":   canonOf[*session.Round2P2P](),
		"sess/SessionSetupR3UNICAST:":   canonOf[*session.Round3P2P](),
	}
	s.run = func(rc *harness.RunCtx, adv *adversary) c04Result {
		pr := newC04Run(rc, adv)
		for _, ns := range []string{"A", "B"} {
			for _, id := range c04IDs {
				pr.start(sessionScript(fmt.Sprintf("%s@%d", ns, id), id, c04IDs, ns+"-sess", partyRand(rc, id, ns+"/sess")))
			}
		}
		if err := pr.run(); err != nil {
			pr.finish()
			return c04Result{harnessErr: err}
		}
		res := c04Result{ends: collectEnds(pr, c04IDs, "A"), stats: pr.cl.Stats, trace: pr.cl.Trace, probes: pr.probes}
		pr.finish()
		res.digest = map[sim.ID]string{}
		for _, id := range c04IDs {
			if e := res.ends[id]; e.done && e.err == nil && e.panic == nil {
				c := e.out.(*session.Context)
				d := fmt.Sprintf("%x", c.SessionID())
				for _, o := range c04IDs {
					if o != id {
						h, _ := seedHead(c, o, 16)
						d += fmt.Sprintf("|%x", h)
					}
				}
				res.digest[id] = d
				res.joint = fmt.Sprintf("%x", c.SessionID())
			}
		}
		// the joint values that are meant to be random include what is derived from the
		// session later: for every party, the pairwise seed of a two-party sub-context it
		// belongs to (zero shares of a signing sub-quorum are expanded from such seeds)
		res.jointBy = map[sim.ID]string{}
		for k, id := range c04IDs {
			if e := res.ends[id]; e.done && e.err == nil && e.panic == nil {
				other := c04IDs[(k+1)%len(c04IDs)]
				if sub, err := e.out.(*session.Context).SubContext(quorumOf([]sim.ID{id, other})); err == nil {
					if h, err := seedHead(sub, other, 32); err == nil {
						res.jointBy[id] = fmt.Sprintf("%x", h)
					}
				}
			}
		}
		// safety: honest parties that complete agree with each other (C10 clause for free leaves)
		var honest []sim.ID
		ctxs := map[sim.ID]*session.Context{}
		for _, id := range c04IDs {
			if id != adv.corrupt && res.ends[id].done && res.ends[id].err == nil && res.ends[id].panic == nil {
				honest = append(honest, id)
				ctxs[id] = res.ends[id].out.(*session.Context)
			}
		}
		if len(honest) >= 2 {
			a, b := honest[0], honest[1]
			if ctxs[a].SessionID() != ctxs[b].SessionID() {
				res.safety = &harness.Violation{Class: "honest-disagree", Site: "session", Detail: fmt.Sprintf("honest parties %d and %d completed with different session ids", a, b)}
			} else {
				sa, e1 := seedHead(ctxs[a], b, 32)
				sb, e2 := seedHead(ctxs[b], a, 32)
				if e1 != nil || e2 != nil || string(sa) != string(sb) {
					res.safety = &harness.Violation{Class: "honest-disagree", Site: "session", Detail: fmt.Sprintf("honest parties %d and %d completed with different pairwise seeds", a, b)}
				}
			}
		}
		return res
	}
	s.classify = func(label string) (string, string) {
		if strings.Contains(label, "SessionSetupR1BROADCAST:") && strings.Contains(label, "|.Ck:") {
			return "free", "a party may announce any commitment key; peers merely commit under the key they received (altering it is indistinguishable from an honest party that chose differently)"
		}
		return "bound", ""
	}
	return s
}

// ---- scenario: DKG (Gennaro / Canetti) ----

func scenarioDKG(proto string) *c04Scenario {
	return scenarioDKGSpec(proto, proto, func() (*acSpec, error) { return genFixedThreshold(2, c04IDs) })
}

// cnfSingletons: the CNF structure whose maximal unqualified sets are the three
// singletons (any two holders are qualified); every holder owns two MSP rows, so every
// share, sub-share and public share has two components.
func cnfSingletons() (*acSpec, error) {
	us := [][]sim.ID{{c04IDs[0]}, {c04IDs[1]}, {c04IDs[2]}}
	lib, err := newCNF(us)
	if err != nil {
		return nil, err
	}
	return &acSpec{kind: "cnf", ids: sortedIDs(c04IDs), lib: lib, nonIdeal: true, desc: fmt.Sprintf("cnf(max-unqualified %v)", us), qualified: func(s map[sim.ID]bool) bool {
		c := 0
		for _, id := range c04IDs {
			if s[id] {
				c++
			}
		}
		return c >= 2
	}}, nil
}

// cnfPairs4: four holders, maximal unqualified sets = all six pairs (any three
// holders are qualified). The induced MSP has six columns, more than holders
// plus one: the dealer's random column is longer than the holder set.
var cnfWideIDs = []sim.ID{7, 12, 300, 4000}

func cnfPairs4() (*acSpec, error) {
	var us [][]sim.ID
	for a := 0; a < len(cnfWideIDs); a++ {
		for b := a + 1; b < len(cnfWideIDs); b++ {
			us = append(us, []sim.ID{cnfWideIDs[a], cnfWideIDs[b]})
		}
	}
	lib, err := newCNF(us)
	if err != nil {
		return nil, err
	}
	return &acSpec{kind: "cnf", ids: sortedIDs(cnfWideIDs), lib: lib, nonIdeal: true, desc: fmt.Sprintf("cnf(max-unqualified %v)", us), qualified: func(s map[sim.ID]bool) bool {
		c := 0
		for _, id := range cnfWideIDs {
			if s[id] {
				c++
			}
		}
		return c >= 3
	}}, nil
}

func scenarioDKGSpec(name, proto string, mkSpec func() (*acSpec, error)) *c04Scenario {
	s := &c04Scenario{name: name, only: []string{"dkg/"}, maxLeaves: 40}
	s.canon = map[string]func([]byte) ([]byte, error){
		"dkg/GennaroDKGRound1BROADCAST:":           canonOf[*gennaro.Round1Broadcast[*k256Point, *k256Scalar]](),
		"dkg/GennaroDKGRound1UNICAST:":             canonOf[*gennaro.Round1Unicast[*k256Point, *k256Scalar]](),
		"dkg/GennaroDKGRound2BROADCAST:":           canonOf[*gennaro.Round2Broadcast[*k256Point, *k256Scalar]](),
		"dkg/BRON_CRYPTO_DKG_CANETTI_R1BROADCAST:": canonOf[*canetti.Round1Broadcast[*k256Point, *k256Scalar]](),
		"dkg/BRON_CRYPTO_DKG_CANETTI_R2BROADCAST:": canonOf[*canetti.Round2Broadcast[*k256Point, *k256Scalar]](),
		"dkg/BRON_CRYPTO_DKG_CANETTI_R2UNICAST:":   canonOf[*canetti.Round2P2P[*k256Point, *k256Scalar]](),
		"dkg/BRON_CRYPTO_DKG_CANETTI_R3BROADCAST:": canonOf[*canetti.Round3Broadcast[*k256Point, *k256Scalar]](),
	}
	s.run = func(rc *harness.RunCtx, adv *adversary) c04Result {
		kit := kitK256()
		w := rc.Seed.Sub("ac").Rand()
		_ = w
		spec, err := mkSpec()
		if err != nil {
			return c04Result{harnessErr: err}
		}
		pr := newC04RunIDs(rc, adv, spec.ids)
		for _, ns := range []string{"A", "B"} {
			for _, id := range spec.ids {
				sc := dkgScript(fmt.Sprintf("%s@%d", ns, id), id, spec, kit, proto, fiatshamir.Name, ns, partyRand(rc, id, ns+"/sess"), partyRand(rc, id, ns+"/proto"))
				pr.start(sc)
			}
		}
		if err := pr.run(); err != nil {
			pr.finish()
			return c04Result{harnessErr: err}
		}
		res := c04Result{ends: collectEnds(pr, spec.ids, "A"), stats: pr.cl.Stats, trace: pr.cl.Trace, probes: pr.probes}
		pr.finish()
		res.digest = map[sim.ID]string{}
		for _, id := range spec.ids {
			e := res.ends[id]
			if e.done && e.err == nil && e.panic == nil {
				if b, err := serde.MarshalCBOR(e.out.(*mpc.BaseShard[*k256Point, *k256Scalar])); err == nil {
					res.digest[id] = fmt.Sprintf("%x", sha256.Sum256(b))
				}
				res.joint = hex.EncodeToString(e.out.(*mpc.BaseShard[*k256Point, *k256Scalar]).PublicKeyValue().Bytes())
			}
			if id == adv.corrupt || !e.done || e.err != nil || e.panic != nil {
				continue
			}
			sh := e.out.(*mpc.BaseShard[*k256Point, *k256Scalar])
			if v := selfConsistent(kit, sh, id, proto); v != nil {
				res.safety = v
			}
		}
		return res
	}
	s.classify = func(label string) (string, string) { return "bound", "" }
	return s
}

// ---- scenario: threshold signing (session + cosigning + partials to an aggregator) ----

func scenarioSign[G algebra.PrimeGroupElement[G, S], S algebra.PrimeFieldElement[S]](name string, mk func() *signFlavor[G, S], quorum []sim.ID, heavy bool, maxLeaves int) *c04Scenario {
	s := &c04Scenario{name: name, only: []string{"sign/", "agg/"}, maxLeaves: maxLeaves, heavy: heavy}
	s.run = func(rc *harness.RunCtx, adv *adversary) c04Result {
		fl := mk()
		spec, err := genFixedThreshold(2, c04IDs)
		if err != nil {
			return c04Result{harnessErr: err}
		}
		dealt, err := trusteddealer.Deal(fl.kit.group, spec.lib, sim.NewRand(rc.Seed.Sub("rand/dealer")))
		if err != nil {
			return c04Result{harnessErr: err}
		}
		shards := map[sim.ID]*mpc.BaseShard[G, S]{}
		for id, sh := range dealt.Iter() {
			shards[id] = sh
		}
		// the aggregator is the lowest honest cosigner
		var agg sim.ID
		for _, id := range quorum {
			if id != adv.corrupt && (agg == 0 || id < agg) {
				agg = id
			}
		}
		msg := []byte("C04 message to be signed")
		pr := newC04Run(rc, adv)
		var mu sync.Mutex
		var safety *harness.Violation
		accepted := 0
		for _, ns := range []string{"A", "B"} {
			ns := ns
			for _, id := range quorum {
				id := id
				pr.start(script{name: fmt.Sprintf("%s@%d", ns, id), party: id, fn: func(ctx context.Context, rt *network.Router) (any, error) {
					srnd, rnd := partyRand(rc, id, ns+"/sess"), partyRand(rc, id, ns+"/proto")
					sr, err := session.NewSessionRunner(id, quorumOf(quorum), srnd)
					if err != nil {
						return nil, err
					}
					sctx, err := sr.Run(ctx, rt.Namespaced(ns+"-sess"), nil)
					if err != nil {
						return nil, err
					}
					myMsg := msg
					if rc.Params["altmsg"] == fmt.Sprint(id) && ns == "A" {
						myMsg = []byte("another message, signed by one cosigner only") // own-other-input inventory
					}
					var ps any
					var keepAgg func(map[sim.ID]any, []byte) ([]byte, any, error)
					if fl.signKeep != nil && id == agg {
						ps, keepAgg, err = fl.signKeep(ctx, rt.Namespaced(ns+"-sign"), sctx, shards[id], compiler.Name(fiatshamir.Name), myMsg, rnd)
					} else {
						ps, err = fl.sign(ctx, rt.Namespaced(ns+"-sign"), sctx, shards[id], compiler.Name(fiatshamir.Name), myMsg, rnd)
					}
					if err != nil {
						return nil, err
					}
					art := rt.Namespaced(ns + "-agg")
					if id != agg {
						b, err := fl.encPartial(ps)
						if err != nil {
							return nil, err
						}
						return ps, art.SendTo(ctx, "PARTIALUNICAST:", map[sim.ID][]byte{agg: b})
					}
					var others []sim.ID
					for _, q := range quorum {
						if q != agg {
							others = append(others, q)
						}
					}
					in, err := art.ReceiveFrom(ctx, "PARTIALUNICAST:", others...)
					if err != nil {
						return nil, err
					}
					partials := map[sim.ID]any{agg: ps}
					for _, q := range others {
						p, err := fl.decPartial(in[q])
						if err != nil {
							return nil, fmt.Errorf("aggregator: cannot decode partial signature of %d: %w", q, err)
						}
						partials[q] = p
					}
					var sig any
					if keepAgg != nil {
						_, sig, err = keepAgg(partials, msg) // cosigning aggregator (identifiable-abort path)
					} else {
						_, sig, err = fl.aggregate(shards[agg], partials, msg, rnd)
					}
					if err != nil {
						return nil, err
					}
					// an accepted signature must verify publicly
					if ns == "A" {
						mu.Lock()
						accepted++
						verify := fl.refVerify
						if verify == nil {
							verify = fl.libVerify // BLS: no independent pairing implementation (semi-independent oracle)
						}
						if verr := verify(shards[agg].PublicKeyValue(), msg, sig); verr != nil {
							safety = &harness.Violation{Class: "invalid-signature-released", Site: name, Detail: fmt.Sprintf("the aggregator returned a signature that fails independent verification: %v", verr)}
						}
						mu.Unlock()
					}
					return sig, nil
				}})
			}
		}
		if err := pr.run(); err != nil {
			pr.finish()
			return c04Result{harnessErr: err}
		}
		res := c04Result{ends: collectEnds(pr, quorum, "A"), stats: pr.cl.Stats, trace: pr.cl.Trace, probes: pr.probes, safety: safety}
		pr.finish()
		res.digest = map[sim.ID]string{}
		for _, id := range quorum {
			if e := res.ends[id]; e.done && e.err == nil && e.panic == nil {
				if id == agg {
					res.digest[id] = "sig:" + hex.EncodeToString(fl.nonce(e.out))
					res.joint = hex.EncodeToString(fl.nonce(e.out))
				} else if b, err := fl.encPartial(e.out); err == nil {
					res.digest[id] = fmt.Sprintf("%x", sha256.Sum256(b))
				}
			}
		}
		if accepted > 0 {
			res.probes["signature_accepted_despite_tamper"] += accepted
		}
		return res
	}
	s.classify = func(label string) (string, string) { return "bound", "" }
	return s
}

func genFixedThreshold(t int, ids []sim.ID) (*acSpec, error) {
	lib, err := newThreshold(t, ids)
	if err != nil {
		return nil, err
	}
	return &acSpec{kind: "threshold", ids: sortedIDs(ids), lib: lib, desc: fmt.Sprintf("threshold(%d of %v)", t, ids), qualified: func(s map[sim.ID]bool) bool {
		c := 0
		for _, id := range ids {
			if s[id] {
				c++
			}
		}
		return c >= t
	}}, nil
}

// ---- the generic cell runner and oracle ----

var c04Scenarios = map[string]func() *c04Scenario{}

func init() {
	c04Scenarios["session"] = scenarioSession
	c04Scenarios["gennaro"] = func() *c04Scenario { return scenarioDKG("gennaro") }
	c04Scenarios["canetti"] = func() *c04Scenario { return scenarioDKG("canetti") }
	c04Scenarios["gennaro-cnf"] = func() *c04Scenario { return scenarioDKGSpec("gennaro-cnf", "gennaro", cnfSingletons) }
	c04Scenarios["gennaro-cnf-wide"] = func() *c04Scenario { return scenarioDKGSpec("gennaro-cnf-wide", "gennaro", cnfPairs4) }
	c04Scenarios["lindell22-bip340"] = func() *c04Scenario {
		sc := scenarioSign("lindell22-bip340", flavorL22BIP340, c04IDs, false, 40)
		sc.canon = map[string]func([]byte) ([]byte, error){
			"sign/Lindell22SigningRound1BROADCAST:": canonOf[*l22signing.Round1Broadcast[*k256Point, *k256Scalar, []byte]](),
			"sign/Lindell22SigningRound1UNICAST:":   canonOf[*l22signing.Round1P2P[*k256Point, *k256Scalar, []byte]](),
			"sign/Lindell22SigningRound2BROADCAST:": canonOf[*l22signing.Round2Broadcast[*k256Point, *k256Scalar, []byte]](),
			"agg/PARTIALUNICAST:":                   canonOf[*lindell22.PartialSignature[*k256Point, *k256Scalar]](),
		}
		return sc
	}
	c04Scenarios["dkls23-bbot"] = func() *c04Scenario {
		sc := scenarioSign("dkls23-bbot", func() *signFlavor[*k256Point, *k256Scalar] {
			return flavorDKLs23(kitK256(), ecdsaK256(), "bbot", "sha256", sha256.New)
		}, []sim.ID{7, 300}, true, 24)
		sc.canon = map[string]func([]byte) ([]byte, error){
			"sign/DKLS23SignBBOTRound1BROADCAST:": canonOf[*signing_bbot.Round1Broadcast[*k256Point, *k256Base, *k256Scalar]](),
			"sign/DKLS23SignBBOTRound1UNICAST:":   canonOf[*signing_bbot.Round1P2P[*k256Point, *k256Base, *k256Scalar]](),
			"sign/DKLS23SignBBOTRound2BROADCAST:": canonOf[*signing_bbot.Round2Broadcast[*k256Point, *k256Base, *k256Scalar]](),
			"sign/DKLS23SignBBOTRound2UNICAST:":   canonOf[*signing_bbot.Round2P2P[*k256Point, *k256Base, *k256Scalar]](),
			"sign/DKLS23SignBBOTRound3BROADCAST:": canonOf[*signing_bbot.Round3Broadcast[*k256Point, *k256Base, *k256Scalar]](),
			"sign/DKLS23SignBBOTRound3UNICAST:":   canonOf[*signing_bbot.Round3P2P[*k256Point, *k256Base, *k256Scalar]](),
			"agg/PARTIALUNICAST:":                 canonOf[*dkls23.PartialSignature[*k256Point, *k256Base, *k256Scalar]](),
		}
		return sc
	}
	c04Scenarios["dkls23-softspoken"] = func() *c04Scenario {
		sc := scenarioSign("dkls23-softspoken", func() *signFlavor[*k256Point, *k256Scalar] {
			return flavorDKLs23(kitK256(), ecdsaK256(), "softspoken", "sha256", sha256.New)
		}, []sim.ID{7, 300}, true, 24)
		sc.canon = map[string]func([]byte) ([]byte, error){
			"sign/DKLS23SignRound1UNICAST:":   canonOf[*signing_softspoken.Round1P2P[*k256Point, *k256Base, *k256Scalar]](),
			"sign/DKLS23SignRound2UNICAST:":   canonOf[*signing_softspoken.Round2P2P[*k256Point, *k256Base, *k256Scalar]](),
			"sign/DKLS23SignRound3BROADCAST:": canonOf[*signing_softspoken.Round3Broadcast[*k256Point, *k256Base, *k256Scalar]](),
			"sign/DKLS23SignRound3UNICAST:":   canonOf[*signing_softspoken.Round3P2P[*k256Point, *k256Base, *k256Scalar]](),
			"sign/DKLS23SignRound4BROADCAST:": canonOf[*signing_softspoken.Round4Broadcast[*k256Point, *k256Base, *k256Scalar]](),
			"sign/DKLS23SignRound4UNICAST:":   canonOf[*signing_softspoken.Round4P2P[*k256Point, *k256Base, *k256Scalar]](),
			"agg/PARTIALUNICAST:":             canonOf[*dkls23.PartialSignature[*k256Point, *k256Base, *k256Scalar]](),
		}
		return sc
	}
}

// inventories are computed once per process and scenario.
var (
	invMu    sync.Mutex
	invCache = map[string][]wireMsg{}
	invDigest = map[string]map[sim.ID]string{}
	// invRootCalls: per inventory, "rand:<id>|<purpose>" -> Read calls made by the party's own goroutine
	invRootCalls = map[string]map[string]int{}
)

// c04Seed: the cell runs of one scenario share one run seed, so that pass 2
// replays pass 1 up to the tamper point.
func c04Seed(root sim.Seed, scenario string) sim.Seed { return root.Sub("c04/" + scenario) }

func inventory(t *testing.T, sc *c04Scenario, seed sim.Seed) ([]wireMsg, error) {
	invMu.Lock()
	defer invMu.Unlock()
	key := sc.name + seed.Hex()
	if log, ok := invCache[key]; ok {
		return log, nil
	}
	var log []wireMsg
	var herr error
	synctest.Test(t, func(t *testing.T) {
		adv := newAdversary(0, nil)
		rc := &harness.RunCtx{T: t, Seed: seed, Replay: nil, Params: map[string]string{}, Aux: map[string]any{}, AuxMu: &sync.Mutex{}}
		res := sc.run(rc, adv)
		calls := map[string]int{}
		for k, v := range rc.Aux {
			if r, ok := v.(*sim.Rand); ok {
				calls[k] = r.RootCalls
			}
		}
		invRootCalls[key] = calls
		if res.harnessErr != nil {
			herr = res.harnessErr
			return
		}
		for id, e := range res.ends {
			if !e.done || e.err != nil || e.panic != nil {
				herr = fmt.Errorf("inventory run of %s did not complete honestly at %d: done=%v err=%v panic=%v", sc.name, id, e.done, e.err, e.panic)
				return
			}
		}
		if res.safety != nil {
			herr = fmt.Errorf("inventory run of %s: %s", sc.name, res.safety.Detail)
			return
		}
		log = adv.Log
		// parties run concurrently within a scheduler step: the recording order of
		// their sends is the Go scheduler's; everything derived from the log must not depend on it
		sort.SliceStable(log, func(i, j int) bool {
			if log[i].CID != log[j].CID {
				return log[i].CID < log[j].CID
			}
			if log[i].From != log[j].From {
				return log[i].From < log[j].From
			}
			return log[i].To < log[j].To
		})
		invDigest[key] = res.digest
	})
	if herr != nil {
		return nil, herr
	}
	invCache[key] = log
	return log, nil
}

// c04Cells enumerates the cells of a scenario: every corrupt party position.
func c04Cells(t *testing.T, sc *c04Scenario, seed sim.Seed, withAlts bool) ([]map[string]string, error) {
	log, err := inventory(t, sc, seed)
	if err != nil {
		return nil, err
	}
	var out []map[string]string
	parties := map[sim.ID]bool{}
	for _, w := range log {
		parties[w.From] = true
	}
	var ps []sim.ID
	for id := range parties {
		ps = append(ps, id)
	}
	ps = sortedIDs(ps)
	for _, c := range ps {
		if _, skip := sc.skipCorrupt[c]; skip {
			continue
		}
		for _, ce := range enumerateCells(log, c, "A", sc.only, sc.maxLeaves, sc.costlyRun) {
			p := ce.t.params()
			p["scenario"] = sc.name
			p["corrupt"] = fmt.Sprint(c)
			p["cell"] = fmt.Sprintf("%s|c=%s|%s", sc.name, posLabel(c, ps), ce.label)
			out = append(out, p)
		}
		// Semantic deviations the byte-level operators cannot forge: the message the
		// corrupt party itself would have sent in an execution that is identical except
		// for (a) its own protocol-stage coins, (b) its own input (signing scenarios:
		// another message). Proofs in such a message are valid and bound to the right
		// identity and session; only the binding to the party's *earlier* messages (or
		// to the agreed input) is broken.
		alts := map[string]map[string]string{"own-other-coins": {"alt": fmt.Sprintf("%d|A/proto|y", c)}}
		if strings.Contains(strings.Join(sc.only, ","), "sign/") {
			alts["own-other-input"] = map[string]string{"altmsg": fmt.Sprint(c)}
		}
		for _, an := range []string{"own-other-coins", "own-other-input"} {
			ap, ok := alts[an]
			if !ok || !withAlts {
				continue
			}
			alog, err := altInventory(t, sc, seed, an+fmt.Sprint(c), ap)
			if err != nil {
				return nil, err
			}
			for _, w := range log {
				if w.From != c || !strings.HasPrefix(w.CID, "A-") || !inOnly(sc, w.CID) {
					continue
				}
				for _, a := range alog {
					if a.From == w.From && a.CID == w.CID && a.To == w.To && a.Broadcast == w.Broadcast && string(a.Body) != string(w.Body) {
						tm := tamper{CID: w.CID, To: w.To, Op: "replaymsg", Arg: hex.EncodeToString(a.Body)}
						p := tm.params()
						p["scenario"] = sc.name
						p["corrupt"] = fmt.Sprint(c)
						p["cell"] = fmt.Sprintf("%s|c=%s|%s|to=%s|(message)|replaymsg:%s", sc.name, posLabel(c, ps), stripNS(w.CID), toLabel(w.To), an)
						out = append(out, p)
					}
				}
			}
		}
		// (c) One coin flipped: the run in which exactly one Read call of the corrupt party's
		// own protocol-stage stream returned other bytes. Messages built before that draw are
		// identical, later ones are valid for the changed draw. Replaying one such later message
		// on its own, while everything earlier stays as in the unaltered run, breaks exactly the
		// binding between a message and an earlier commitment to the same value (a proof for a
		// fresh nonce under the same joint challenge, an opening for another commitment, ...).
		if !sc.costlyRun && !sc.heavy {
			stage := "A/proto"
			if sc.name == "session" {
				stage = "A/sess"
			}
			ncalls := invRootCalls[sc.name+seed.Hex()][fmt.Sprintf("rand:%d|%s", c, stage)]
			var ks []int
			if ncalls <= 16 {
				for k := 1; k <= ncalls; k++ {
					ks = append(ks, k)
				}
			} else {
				for j := 0; j < 16; j++ {
					ks = append(ks, 1+j*(ncalls-1)/15)
				}
			}
			seenBody := map[string]bool{}
			for _, k := range ks {
				alog, err := altInventory(t, sc, seed, fmt.Sprintf("altcall%d.%d", c, k), map[string]string{"altcall": fmt.Sprintf("%d|%s|%d", c, stage, k)})
				if err != nil {
					return nil, err
				}
				find := func(w wireMsg) *wireMsg {
					for i := range alog {
						a := &alog[i]
						if a.From == w.From && a.CID == w.CID && a.To == w.To && a.Broadcast == w.Broadcast {
							return a
						}
					}
					return nil
				}
				firstDiff := ""
				for _, w := range log { // sorted by correlation id: round order
					if w.From != c || !strings.HasPrefix(w.CID, "A-") || !inOnly(sc, w.CID) {
						continue
					}
					if a := find(w); a != nil && string(a.Body) != string(w.Body) && (firstDiff == "" || stripNS(w.CID) < firstDiff) {
						firstDiff = stripNS(w.CID)
					}
				}
				for _, w := range log {
					if w.From != c || !strings.HasPrefix(w.CID, "A-") || !inOnly(sc, w.CID) || firstDiff == "" || stripNS(w.CID) <= firstDiff {
						continue
					}
					a := find(w)
					if a == nil || string(a.Body) == string(w.Body) {
						continue
					}
					bk := w.CID + fmt.Sprint(w.To) + string(a.Body)
					if seenBody[bk] {
						continue
					}
					seenBody[bk] = true
					tm := tamper{CID: w.CID, To: w.To, Op: "replaymsg", Arg: hex.EncodeToString(a.Body)}
					p := tm.params()
					p["scenario"] = sc.name
					p["corrupt"] = fmt.Sprint(c)
					p["cell"] = fmt.Sprintf("%s|c=%s|%s|to=%s|(message)|replaymsg:own-single-draw#%d", sc.name, posLabel(c, ps), stripNS(w.CID), toLabel(w.To), k)
					out = append(out, p)
				}
			}
		}
	}
	return out, nil
}

// altInventory records an honest run that differs from the inventory run in one party's coins or input.
func altInventory(t *testing.T, sc *c04Scenario, seed sim.Seed, tag string, params map[string]string) ([]wireMsg, error) {
	invMu.Lock()
	defer invMu.Unlock()
	key := sc.name + seed.Hex() + "|" + tag
	if log, ok := invCache[key]; ok {
		return log, nil
	}
	var log []wireMsg
	var herr error
	synctest.Test(t, func(t *testing.T) {
		adv := newAdversary(0, nil)
		rc := &harness.RunCtx{T: t, Seed: seed, Params: params}
		res := sc.run(rc, adv)
		if res.harnessErr != nil {
			herr = res.harnessErr
			return
		}
		log = adv.Log
	})
	if herr != nil {
		return nil, herr
	}
	invCache[key] = log
	return log, nil
}

func posLabel(c sim.ID, ps []sim.ID) string {
	for i, p := range ps {
		if p == c {
			return fmt.Sprintf("p%d", i)
		}
	}
	return "?"
}

// RunC04Cell runs one fault cell and applies the C04 oracle.
func RunC04Cell(rc *harness.RunCtx) (out harness.Outcome) {
	mk, ok := c04Scenarios[rc.Params["scenario"]]
	if !ok {
		return harness.Outcome{HarnessErr: fmt.Errorf("unknown scenario %q", rc.Params["scenario"])}
	}
	sc := mk()
	plan := tamperFromParams(rc.Params)
	var c sim.ID
	fmt.Sscan(rc.Params["corrupt"], &c)
	seed := c04Seed(sim.RootSeed(rootSeedOf(rc)).Sub("C04"), sc.name)
	rc2 := *rc
	rc2.Seed = seed
	vacuous, undecodable := false, false
	if plan != nil && plan.Op != "drop" {
		if log, err := inventory(rc.T, sc, seed); err == nil {
			for i := range log {
				w := &log[i]
				if w.From != c || w.CID != plan.CID || !(w.Broadcast || w.To == plan.To) {
					continue
				}
				cf := sc.canon[stripNS(w.CID)]
				if cf == nil {
					break
				}
				co, err1 := cf(w.Body)
				nb, err2 := applyTamper(w.Body, plan)
				if err1 != nil || err2 != nil || string(co) != string(w.Body) {
					break // the codec does not round-trip the honest message: no vacuity judgement
				}
				cn, err3 := cf(nb)
				if err3 != nil {
					undecodable = true
				} else if string(cn) == string(co) {
					vacuous = true
				}
				break
			}
		}
	}
	var res c04Result
	adv := newAdversary(c, plan)
	synctest.Test(rc.T, func(t *testing.T) { res = sc.run(&rc2, adv) })
	if res.harnessErr != nil {
		return harness.Outcome{HarnessErr: res.harnessErr}
	}
	cellLabel := rc.Params["cell"]
	class, why := sc.classify(cellLabel)
	if plan != nil && plan.Op == "replaymsg" && class == "bound" {
		// a whole message replaced by another well-formed one: it is bound unless every
		// leaf in which the two differ is a free one
		if log, err := inventory(rc.T, sc, seed); err == nil {
			for i := range log {
				w := &log[i]
				if w.From != c || w.CID != plan.CID || !(w.Broadcast || w.To == plan.To) {
					continue
				}
				nb, err1 := hex.DecodeString(plan.Arg)
				ta, err2 := cbor.ParseDeep(w.Body)
				tb, err3 := cbor.ParseDeep(nb)
				if err1 != nil || err2 != nil || err3 != nil {
					break
				}
				seenNorm := map[string]bool{}
				differ, allFree, whyFree := 0, true, ""
				for _, l := range ta.Leaves() {
					np := cbor.NormPath(l.Path) + ":" + kindClass(l.Node)
					inst := "#1"
					if !seenNorm[np] {
						inst = "#0"
						seenNorm[np] = true
					}
					o, ok := tb.Find(l.Path)
					if ok && o.Node.Major == l.Node.Major && string(o.Node.Bytes) == string(l.Node.Bytes) && o.Node.Arg == l.Node.Arg {
						continue
					}
					differ++
					pos := "?"
					if k := strings.Index(cellLabel, "|c="); k >= 0 {
						pos = cellLabel[k+3 : k+5]
					}
					lc, lw := sc.classify(fmt.Sprintf("%s|c=%s|%s|to=%s|%s|replaced%s", sc.name, pos, stripNS(w.CID), toLabel(plan.To), np, inst))
					if lc != "free" {
						allFree = false
					} else {
						whyFree = lw
					}
				}
				if differ > 0 && allFree {
					class, why = "free", "replaced message differs from the original only in free leaves: "+whyFree
				}
				break
			}
		}
	}
	out = harness.Outcome{Class: sc.name + " " + class, Trace: res.trace, Stats: res.stats, Probes: res.probes, Params: rc.Params, Cells: []string{cellLabel}, Digest: fmt.Sprint(res.digest) + endsString(res.ends, c)}
	if out.Probes == nil {
		out.Probes = map[string]int{}
	}
	if adv.Err != nil {
		return harness.Outcome{HarnessErr: fmt.Errorf("cell %s: tamper could not be applied: %w", cellLabel, adv.Err)}
	}
	if adv.Fired == 0 {
		return harness.Outcome{HarnessErr: fmt.Errorf("cell %s: the targeted message was never sent (pass 2 diverged from the inventory run)", cellLabel)}
	}
	if !adv.Changed {
		out.Skipped = true
		out.Probes["cell_no_change"]++
		return out
	}
	out.NonTrivial = true
	if undecodable {
		out.Probes["altered_message_undecodable"]++
	}
	if vacuous {
		// The altered bytes decode, with the library's own codec, to exactly the
		// message the sender built (a non-canonical encoding of the same value):
		// nothing the protocol binds was altered. Safety is still checked.
		class, why = "free", "vacuous alteration: decodes to the identical message (non-canonical encoding; C12/C13 territory)"
	}
	out.Probes["class_"+class]++
	out.Probes["op_"+plan.Op]++
	site := cellLabel
	fail := func(cl, f string, a ...any) harness.Outcome {
		out.Violation = &harness.Violation{Class: cl, Site: site, Detail: fmt.Sprintf(f, a...)}
		return out
	}
	// ---- safety ----
	var honestErr, anyErr bool
	var blockedHonest []sim.ID
	ids := make([]sim.ID, 0, len(res.ends))
	for id := range res.ends {
		ids = append(ids, id)
	}
	ids = sortedIDs(ids)
	for _, id := range ids {
		e := res.ends[id]
		if e.panic != nil {
			if id != c {
				return fail("panic", "honest party %d panicked after tamper %s: %v\n%s", id, plan, e.panic, firstLines(e.stack, 14))
			}
			anyErr = true
			continue
		}
		if e.err != nil {
			anyErr = true
			if id != c {
				honestErr = true
				for _, b := range base.GetMaliciousIdentities[sim.ID](e.err) {
					if b != c {
						return fail("wrong-blame", "honest party %d blames %d, the deviating party is %d (tamper %s): %s", id, b, c, plan, oneLineErr(e.err))
					}
				}
				if len(base.GetMaliciousIdentities[sim.ID](e.err)) > 0 {
					out.Probes["blamed_correctly"]++
				} else {
					out.Probes["aborted_without_blame"]++
				}
			}
		}
		if e.blocked && id != c {
			blockedHonest = append(blockedHonest, id)
		}
	}
	if res.safety != nil {
		v := *res.safety
		v.Site = site
		v.Detail += " (tamper " + plan.String() + ")"
		out.Violation = &v
		return out
	}
	if len(blockedHonest) > 0 && !anyErr && plan.Op != "drop" {
		return fail("hang", "honest parties %v are blocked although nobody aborted and no message was withheld (tamper %s)", blockedHonest, plan)
	}
	// ---- detection ----
	if class == "free" {
		out.Probes["free_cell:"+why[:min(40, len(why))]]++
		return out
	}
	if !honestErr && plan.Op == "extend" {
		// Surplus data appended to a byte string or vector while everything the
		// sender originally put there is still present: if every party ends with
		// exactly the outputs of the unaltered run, the surplus was ignored and the
		// bound content was not altered (strictness of decoding is C12's subject).
		if _, err := inventory(rc.T, sc, seed); err == nil {
			invMu.Lock()
			baseDig := invDigest[sc.name+seed.Hex()]
			invMu.Unlock()
			same := len(baseDig) > 0 && len(res.digest) == len(baseDig)
			for id, d := range baseDig {
				if res.digest[id] != d {
					same = false
				}
			}
			if same {
				out.Probes["surplus_ignored_outputs_identical"]++
				return out
			}
		}
	}
	if !honestErr {
		if plan.Op == "drop" && len(blockedHonest) > 0 {
			out.Probes["drop_blocks_honest_parties"]++
			return out // withholding a message cannot be "detected"; nobody accepted anything
		}
		if ce := res.ends[c]; len(blockedHonest) > 0 && (ce.err != nil || ce.panic != nil) {
			// The corrupt party runs honest code and aborted by itself (its own checks
			// on the replies failed) before the honest parties reached theirs; they are
			// left waiting for it and accepted nothing. Detection cannot be judged.
			out.Probes["inconclusive_corrupt_party_aborted_first"]++
			return out
		}
		return fail("undetected", "no honest party rejected although a %s part of the message was altered: %s; ends: %s", class, plan, endsString(res.ends, c))
	}
	if plan.To != 0 {
		// a private message altered for its recipient: the recipient itself must reject
		if e := res.ends[plan.To]; e.err == nil && e.done {
			return fail("recipient-did-not-reject", "the unicast to %d was altered (%s) but %d did not reject; ends: %s", plan.To, plan, plan.To, endsString(res.ends, c))
		}
	}
	out.Probes["detected"]++
	return out
}

func firstLines(s string, n int) string {
	l := strings.Split(s, "\n")
	if len(l) > n {
		l = l[:n]
	}
	return strings.Join(l, " | ")
}

func endsString(ends map[sim.ID]partyEnd, c sim.ID) string {
	var ids []sim.ID
	for id := range ends {
		ids = append(ids, id)
	}
	ids = sortedIDs(ids)
	var parts []string
	for _, id := range ids {
		e := ends[id]
		role := "honest"
		if id == c {
			role = "corrupt"
		}
		st := "output"
		switch {
		case e.blocked:
			st = "blocked"
		case e.panic != nil:
			st = "panic"
		case e.err != nil:
			st = "error"
		}
		parts = append(parts, fmt.Sprintf("%d(%s)=%s", id, role, st))
	}
	return strings.Join(parts, " ")
}

func rootSeedOf(rc *harness.RunCtx) int64 {
	var s int64 = 1
	fmt.Sscan(rc.Params["verif_seed"], &s)
	return s
}

// c04Workload wraps one scenario as an enumerating workload.
func c04Workload(name string, quickCells int) harness.Workload {
	return harness.Workload{Name: "cells-" + name, Run: RunC04Cell,
		EnumerateT: func(t *testing.T, tier string, seedInt int64, _ sim.Seed) ([]map[string]string, error) {
			if tier != "thorough" && quickCells == 0 {
				return nil, nil // thorough-only scenario (one run costs about a minute)
			}
			sc := c04Scenarios[name]()
			cells, err := c04Cells(t, sc, c04Seed(sim.RootSeed(seedInt).Sub("C04"), sc.name), tier == "thorough" || !sc.costlyRun)
			if err != nil {
				return nil, err
			}
			for _, c := range cells {
				c["verif_seed"] = fmt.Sprint(seedInt)
			}
			if os.Getenv("VERIF_DEBUG") != "" {
				fmt.Printf("DEBUG %s: %d cells enumerated\n", name, len(cells))
			}
			if tier != "thorough" && len(cells) > quickCells {
				// stratified: the semantic own-other-coins / own-other-input cells always, plus an
				// evenly spread subset of the (sorted) list of byte-level cells
				sort.SliceStable(cells, func(i, j int) bool { return cells[i]["cell"] < cells[j]["cell"] })
				var sub, rest []map[string]string
				for _, c := range cells {
					if strings.Contains(c["cell"], "replaymsg:own-") || (strings.Contains(c["cell"], "|swapsibling:") && !sc.costlyRun) {
						sub = append(sub, c)
					} else {
						rest = append(rest, c)
					}
				}
				for k := 0; k < quickCells && len(rest) > 0; k++ {
					sub = append(sub, rest[k*len(rest)/quickCells])
				}
				cells = sub
			}
			if os.Getenv("VERIF_DEBUG") != "" {
				k := 0
				for _, c := range cells {
					if strings.Contains(c["cell"], "|swapsibling:") {
						k++
					}
				}
				fmt.Printf("DEBUG %s: %d cells selected for tier %s, %d of them sibling swaps\n", name, len(cells), tier, k)
			}
			return cells, nil
		}}
}

// C04Workloads lists the fault-enumeration workloads that decide C04.
func C04Workloads() []harness.Workload {
	return []harness.Workload{
		c04Workload("session", 40),
		c04Workload("gennaro", 60),
		c04Workload("canetti", 40),
		c04Workload("gennaro-cnf", 60),
		c04Workload("lindell22-bip340", 40),
		c04Workload("dkls23-bbot", 12),
		c04Workload("dkls23-softspoken", 12),
		c04Workload("aor", 1000),
		c04Workload("redistribute", 1000),
		c04Workload("redistribute-anchored", 1000),
		c04Workload("redistribute-disjoint", 1000),
		c04Workload("lindell17-sign", 1000),
		c04Workload("lindell17-sign-swapped", 40),
		c04Workload("lindell17-dkg", 16),
		c04Workload("lindell17-dkg3", 0),
		c04Workload("boldyreva-short-pop", 1000),
		c04Workload("boldyreva-long-aug", 1000),
	}
}

